"""Bounded-exhaustive model checking of optree (see /verif/DESIGN.md)."""
