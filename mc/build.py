"""Content-hash build cache: compiles optree's C++ engine from the *current working tree*
of $VERIF_REPO (default /repo) into /verif/.build/<variant>[-<tag>]/pkg/optree/ and fills that
directory with symlinks to the repository's Python sources, so that

    PYTHONPATH=/verif/.build/<variant>/pkg  python -c 'import optree'

imports exactly the code that is in the repository right now (DESIGN.md section 3.1).

Variants:  rel  = -O2;   asan = -O1 -g -fsanitize=address,undefined.
No network, no cmake, no pybind11 package: the pybind11 headers vendored in torch are used.
"""

from __future__ import annotations

import fcntl
import hashlib
import os
import shutil
import subprocess
import sys
import time
from concurrent.futures import ThreadPoolExecutor
from pathlib import Path

VERIF = Path(__file__).resolve().parent.parent
PY = '/venv/bin/python'
PYINC = '/root/.pyenv/versions/3.12.1/include/python3.12'
PB11 = '/venv/lib/python3.12/site-packages/torch/include'
EXT = '_C.cpython-312-x86_64-linux-gnu.so'

FLAGS = {
    'rel': ['-O2'],
    'asan': [
        '-O1',
        '-g',
        '-fno-omit-frame-pointer',
        '-fsanitize=address,undefined',
        '-fno-sanitize-recover=undefined',
    ],
}
COMMON = ['-std=c++20', '-fPIC', '-fvisibility=hidden', '-Wno-attributes']


class BuildError(RuntimeError):
    pass


def repo_root() -> Path:
    return Path(os.environ.get('VERIF_REPO', '/repo')).resolve()


def build_dir(variant: str) -> Path:
    repo = repo_root()
    tag = '' if str(repo) == '/repo' else '-' + hashlib.sha1(str(repo).encode()).hexdigest()[:8]
    return VERIF / '.build' / (variant + tag)


def _sha(paths, extra=''):
    h = hashlib.sha256(extra.encode())
    for p in paths:
        h.update(str(p).encode())
        h.update(Path(p).read_bytes())
    return h.hexdigest()


def ensure(variant: str = 'rel', verbose: bool = True) -> Path:
    """Build (if needed) and return the directory to put on PYTHONPATH."""
    repo = repo_root()
    bdir = build_dir(variant)
    obj = bdir / 'obj'
    pkg = bdir / 'pkg' / 'optree'
    obj.mkdir(parents=True, exist_ok=True)
    pkg.mkdir(parents=True, exist_ok=True)
    lock = open(bdir / '.lock', 'w')
    fcntl.flock(lock, fcntl.LOCK_EX)
    try:
        t0 = time.time()
        headers = sorted((repo / 'include').rglob('*.h'))
        sources = sorted([repo / 'src' / 'optree.cpp', repo / 'src' / 'registry.cpp'])
        sources += sorted((repo / 'src' / 'treespec').glob('*.cpp'))
        sources = [s for s in sources if s.exists()]
        if not sources or not headers:
            raise BuildError(f'no sources under {repo}')
        for need in (PYINC + '/Python.h', PB11 + '/pybind11/pybind11.h'):
            if not os.path.exists(need):
                raise BuildError(f'toolchain piece missing: {need}')
        prefix = len(str(repo)) + 1
        flags = COMMON + FLAGS[variant] + [
            f'-DSOURCE_PATH_PREFIX_SIZE={prefix}',
            f'-I{repo}/include',
            f'-I{PYINC}',
            f'-I{PB11}',
        ]
        hdr_hash = _sha(headers, ' '.join(flags))
        todo = []
        objs = []
        for s in sources:
            name = s.relative_to(repo / 'src').as_posix().replace('/', '__')
            o = obj / (name + '.o')
            hfile = obj / (name + '.hash')
            want = _sha([s], hdr_hash)
            objs.append(o)
            if not (o.exists() and hfile.exists() and hfile.read_text() == want):
                todo.append((s, o, hfile, want))

        def compile_one(item):
            s, o, hfile, want = item
            cmd = ['g++', *flags, '-c', str(s), '-o', str(o)]
            r = subprocess.run(cmd, capture_output=True, text=True)
            if r.returncode != 0:
                raise BuildError(f'compile failed: {s}\n{r.stderr[-4000:]}')
            hfile.write_text(want)

        if todo:
            if verbose:
                print(f'[build:{variant}] compiling {len(todo)} TU(s) from {repo}', file=sys.stderr)
            with ThreadPoolExecutor(max_workers=16) as ex:
                list(ex.map(compile_one, todo))
        so = pkg / EXT
        link_hash_file = obj / 'link.hash'
        link_want = hashlib.sha256(
            ''.join((obj / (o.name[:-2] + '.hash')).read_text() for o in objs).encode(),
        ).hexdigest()
        if todo or not so.exists() or not link_hash_file.exists() or link_hash_file.read_text() != link_want:
            tmp = pkg / (EXT + '.tmp')
            cmd = ['g++', '-shared', *FLAGS[variant], '-o', str(tmp), *map(str, objs)]
            r = subprocess.run(cmd, capture_output=True, text=True)
            if r.returncode != 0:
                raise BuildError(f'link failed\n{r.stderr[-4000:]}')
            os.replace(tmp, so)
            link_hash_file.write_text(link_want)
        # Python sources: symlinks (live view of the working tree).
        want_links = {}
        for p in (repo / 'optree').iterdir():
            if p.name in ('__pycache__',) or p.name.startswith('_C.cpython'):
                continue
            want_links[p.name] = p
        for name, target in want_links.items():
            link = pkg / name
            if link.is_symlink() and os.readlink(link) == str(target):
                continue
            if link.is_symlink() or link.exists():
                if link.is_dir() and not link.is_symlink():
                    shutil.rmtree(link)
                else:
                    link.unlink()
            link.symlink_to(target)
        for link in pkg.iterdir():
            if link.name not in want_links and link.name not in (EXT, '__pycache__'):
                if link.is_symlink():
                    link.unlink()
        if verbose and todo:
            print(f'[build:{variant}] done in {time.time() - t0:.1f}s', file=sys.stderr)
        return bdir / 'pkg'
    finally:
        fcntl.flock(lock, fcntl.LOCK_UN)
        lock.close()


def env_for(variant: str = 'rel') -> dict:
    """Environment for worker processes running against the overlay build."""
    pkg = ensure(variant)
    env = dict(os.environ)
    env['PYTHONPATH'] = f'{pkg}:{VERIF}'
    env['PYTHONHASHSEED'] = '0'
    env['PYTHONDONTWRITEBYTECODE'] = '1'
    env['VERIF_OVERLAY'] = str(pkg)
    env['VERIF_VARIANT'] = variant
    if variant == 'asan':
        libasan = subprocess.run(
            ['gcc', '-print-file-name=libasan.so'], capture_output=True, text=True,
        ).stdout.strip()
        libubsan = subprocess.run(
            ['gcc', '-print-file-name=libubsan.so'], capture_output=True, text=True,
        ).stdout.strip()
        env['LD_PRELOAD'] = f'{libasan} {libubsan}'
        sym = os.environ.get('VERIF_SYMBOLIZE', '0')
        env['ASAN_OPTIONS'] = f'detect_leaks=0:abort_on_error=0:exitcode=66:allocator_may_return_null=1:symbolize={sym}:detect_stack_use_after_return=0'
        env['UBSAN_OPTIONS'] = f'print_stacktrace=1:halt_on_error=1:exitcode=67:symbolize={sym}'
        env['PYTHONMALLOC'] = 'malloc'
    return env


def assert_overlay():
    """Called inside workers: make sure `optree` is the overlay build of the working tree."""
    import optree  # noqa: PLC0415

    want = os.environ.get('VERIF_OVERLAY')
    got = os.path.dirname(os.path.dirname(os.path.abspath(optree._C.__file__)))
    if not want or os.path.realpath(got) != os.path.realpath(want):
        raise BuildError(f'optree._C resolved to {optree._C.__file__}, expected overlay {want}')
    return optree


if __name__ == '__main__':
    for v in sys.argv[1:] or ['rel']:
        print(ensure(v))
