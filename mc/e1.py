"""E1: bounded-exhaustive inputs x configurations (DESIGN.md section 3.3) -- shared driver."""

from __future__ import annotations

import functools

import optree

from mc import gen
from mc import universe as un
from mc.ref import STAR, Ref

_U = None
_REF = None


def universe():
    global _U, _REF  # noqa: PLW0603
    if _U is None:
        _U = un.Universe()
        _REF = Ref(_U)
    return _U, _REF


@functools.lru_cache(maxsize=None)
def strata(tier, profile='full'):
    """Named lists of DSL trees for a tier.  Deterministic."""
    if profile == 'full':
        if tier == 'quick':
            return _with_leafless((
                ('core<=4', tuple(map(_freeze, gen.core_trees(4)))),
                ('singles', tuple(map(_freeze, gen.cell_singles(True)))),
                ('pairs', tuple(map(_freeze, gen.cell_pairs(False)))),
            ))
        return _with_leafless((
            ('core<=5', tuple(map(_freeze, gen.core_trees(5)))),
            ('singles', tuple(map(_freeze, gen.cell_singles(True)))),
            ('pairs', tuple(map(_freeze, gen.cell_pairs(True)))),
            ('triples', tuple(map(_freeze, gen.cell_triples('ends')))),
            ))
    if profile == 'small':
        if tier == 'quick':
            return _with_leafless((
                ('core<=3', tuple(map(_freeze, gen.core_trees(3)))),
                ('singles', tuple(map(_freeze, gen.cell_singles(True)))),
                ('pairs', tuple(map(_freeze, gen.cell_pairs(False)))),
            ))
        return _with_leafless((
            ('core<=4', tuple(map(_freeze, gen.core_trees(4)))),
            ('singles', tuple(map(_freeze, gen.cell_singles(True)))),
            ('pairs', tuple(map(_freeze, gen.cell_pairs(True)))),
            ))
    if profile == 'medium':  # thorough tier of the pair / menu properties: deeper core, reduced variant product
        if tier == 'quick':
            return strata(tier, 'tiny')
        return _with_leafless((
            ('core<=4', tuple(map(_freeze, gen.core_trees(4)))),
            ('singles', tuple(map(_freeze, gen.cell_singles(True)))),
            ('pairs', tuple(map(_freeze, gen.cell_pairs(False)))),
            ))
    if profile == 'tiny':
        if tier == 'quick':
            return _with_leafless((
                ('core<=3', tuple(map(_freeze, gen.core_trees(3)))),
                ('singles', tuple(map(_freeze, gen.cell_singles(True)))),
                ('pairs-canonical', tuple(map(_freeze, gen.cell_pairs('canon')))),
            ))
        return strata(tier, 'small')
    raise ValueError(profile)


def _with_leafless(strata_tuple):
    return (*strata_tuple, ('leafless-subtrees', tuple(gen.leafless_trees())))


def _freeze(d):
    return d  # DSL lists are never mutated; kept as-is (JSON-ready)


def configs(tier, predicates=None, namespaces=None, modes=None):
    return un.all_configs(predicates, namespaces, modes)


def S_of(cfg):
    return un.mode_set(cfg['mode'])


def kw_of(cfg):
    return {'is_leaf': un.PREDICATES[cfg['pred']], 'none_is_leaf': cfg['nil'], 'namespace': cfg['ns']}


def ref_flatten(tree, cfg):
    _, R = universe()
    return R.flatten(tree, cfg['nil'], cfg['ns'], un.PREDICATES[cfg['pred']], S_of(cfg))


def nontrivial(desc):
    return desc is not STAR and desc.num_leaves >= 1


def class_key(flat, cfg):
    return (_tk(flat.desc.eq_key()), cfg['nil'], flat.namespace)


def _tk(k):
    # make types printable deterministically
    if isinstance(k, tuple):
        return tuple(_tk(x) for x in k)
    if isinstance(k, type):
        return k.__qualname__
    if isinstance(k, un.Reg):
        return repr(k)
    return k


def drive(ctx, tier, per_case, profile='full', cfgs=None, checkpoint=True, extra_strata=()):
    """Enumerate every (tree, config) of the tier for this shard; call per_case(tree, leaves, dsl,
    cfg, flat) inside the right dict-order mode.  `flat` is the reference flatten result."""
    U, _ = universe()
    cfgs = cfgs if cfgs is not None else configs(tier)
    by_mode = {}
    for c in cfgs:
        by_mode.setdefault(c['mode'], []).append(c)
    index = 0
    for name, trees in [*strata(tier, profile), *extra_strata]:
        ctx.extra[f'trees:{name}'] += 0
        stratum_cfgs = None
        if isinstance(trees, dict):  # {'trees': iterable-or-callable, 'cfgs': [...]} -- stratum with its own grid
            stratum_cfgs = trees['cfgs']
            trees = trees['trees']
        if callable(trees):
            trees = trees()
        by_mode_here = by_mode
        if stratum_cfgs is not None:
            by_mode_here = {}
            for c in stratum_cfgs:
                by_mode_here.setdefault(c['mode'], []).append(c)
        for dsl in trees:
            index += 1
            if not ctx.mine(index):
                continue
            if ctx.skipped(index):
                continue
            if checkpoint:
                ctx.checkpoint(index, {'tree': dsl})
            ctx.extra[f'trees:{name}'] += 1
            tree, leaves = gen.build(dsl, U)
            for mode, cs in by_mode_here.items():
                with un.dict_mode(mode):
                    for cfg in cs:
                        try:
                            per_case(tree, leaves, dsl, cfg)
                        except Exception as ex:  # noqa: BLE001
                            # an operation the reference model says must succeed raised
                            import traceback  # noqa: PLC0415

                            ctx.violation('unexpected-exception',
                                          f'{ctx.prop_id}:unexpected-exception:{type(ex).__name__}',
                                          {'tree': dsl, 'cfg': cfg}, traceback.format_exc()[-1500:])
            if len(ctx.samples) < 3 and gen.dsl_size(dsl) >= 4:
                ctx.sample({'tree': gen.dsl_repr(dsl), 'configs': len(stratum_cfgs or cfgs)})


def replay_case(case, per_case):
    U, _ = universe()
    tree, leaves = gen.build(case['tree'], U)
    cfgs = [case['cfg']] if 'cfg' in case else configs('quick')
    for cfg in cfgs:
        with un.dict_mode(cfg['mode']):
            per_case(tree, leaves, case['tree'], cfg)


def flatten(tree, cfg):
    return optree.tree_flatten(tree, **kw_of(cfg))


KIND_NAMES = {
    'leaf': 'LEAF', 'none': 'NONE', 'tuple': 'TUPLE', 'list': 'LIST', 'dict': 'DICT',
    'namedtuple': 'NAMEDTUPLE', 'odict': 'ORDEREDDICT', 'ddict': 'DEFAULTDICT', 'deque': 'DEQUE',
    'structseq': 'STRUCTSEQUENCE', 'custom': 'CUSTOM',
}


def spec_vs_desc(spec, desc, path='$'):
    """None if the engine treespec has exactly the reference structure, else a description."""
    if spec.kind.name != KIND_NAMES[desc.kind]:
        return f'{path}: kind {spec.kind.name} vs {KIND_NAMES[desc.kind]}'
    if desc is STAR:
        if not spec.is_leaf() or spec.num_nodes != 1 or spec.num_leaves != 1:
            return f'{path}: leaf spec inconsistent'
        return None
    if spec.type is not desc.type:
        return f'{path}: type {spec.type} vs {desc.type}'
    if spec.num_children != desc.arity:
        return f'{path}: arity {spec.num_children} vs {desc.arity}'
    if spec.num_leaves != desc.num_leaves or spec.num_nodes != desc.num_nodes:
        return f'{path}: counts ({spec.num_leaves},{spec.num_nodes}) vs ({desc.num_leaves},{desc.num_nodes})'
    ents = spec.entries()
    if len(ents) != len(desc.entries) or not all(
        type(a) is type(b) and a == b for a, b in zip(ents, desc.entries)
    ):
        return f'{path}: entries {ents!r} vs {list(desc.entries)!r}'
    for i, (c, d) in enumerate(zip(spec.children(), desc.children)):
        r = spec_vs_desc(c, d, f'{path}/{i}')
        if r:
            return r
    return None


def outcome_of(fn):
    """('ok', value) or ('exc', exception type name)."""
    try:
        return ('ok', fn())
    except Exception as ex:  # noqa: BLE001
        return ('exc', type(ex).__name__)


def core6_stratum():
    """Thorough-only: every tree with exactly 6 nodes over the core kinds (about 1.4 million), generated
    lazily, on the reduced grid none_is_leaf x namespace (no predicate, sorted mode)."""
    return ('core=6 (reduced grid)', {'trees': lambda: gen.core_exact_iter(6),
                                     'cfgs': configs('thorough', predicates=['none'], modes=['sorted'])})
