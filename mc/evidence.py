"""evidence/<id>.json writer; validates against /root/.vp/EVIDENCE.schema.json before writing."""

from __future__ import annotations

import json
import os
import shutil
import subprocess
from pathlib import Path

VERIF = Path(__file__).resolve().parent.parent
SCHEMA_PATHS = [Path('/root/.vp/EVIDENCE.schema.json'), VERIF / 'mc' / 'EVIDENCE.schema.json']


def write(prop_id, tier, seed, spec, merged, wall, unlisted, known_keys):
    level = spec['level']
    extra = dict(merged['extra'])
    cov = {
        'evaluations': int(merged['evaluations']),
        'distinct_nontrivial': len(merged['classes']),
        'rule': spec['rule'],
        'samples': merged['samples'][:8] or [v.get('case') for v in merged['violations'][:4]] or ['<none>'],
        'exhaustive': bool(spec.get('exhaustive', True)),
        'bounds': spec.get('bounds', {}).get(tier, spec.get('bounds')),
        'distinct_outcomes': len(merged['outcomes']),
        'outcomes': {k: int(v) for k, v in sorted(merged['outcomes'].items())[:60]},
        'counters': {k: int(v) for k, v in sorted(extra.items())},
        'named_sets': {k: len(v) for k, v in merged['sets'].items()},
        'known_findings_hit': known_keys,
        'violation_classes': {k: int(v) for k, v in merged['viol_counts'].items()},
    }
    if level == 'model_checking':
        states = len(merged['sets'].get('states', ())) or int(extra.get('states', 0))
        cov['states'] = states
        cov['transitions'] = int(extra.get('transitions', 0))
        cov['traces_validated_against_impl'] = int(extra.get('traces_validated', extra.get('transitions', 0)))
    if merged['notes']:
        cov['notes'] = merged['notes'][:20]
    ev = {
        'property_id': prop_id,
        'tier': tier,
        'seed': int(seed),
        'level': level,
        'coverage': cov,
        'assumptions': spec.get('assumptions', []),
        'wall_s': round(wall, 2),
        'violations': int(unlisted),
    }
    if not unlisted and cov['exhaustive']:
        _minimal_validate(ev)  # vacuity guards for a run that claims the property held
    body = json.dumps(ev, indent=1, default=repr, sort_keys=True) + '\n'
    out = VERIF / 'evidence' / f'{prop_id}.json'
    out.parent.mkdir(exist_ok=True)
    tmp = out.with_suffix('.json.tmp')
    tmp.write_text(body)
    schema_path = next((p for p in SCHEMA_PATHS if p.exists()), None)
    vt = shutil.which('python3-vt')
    if schema_path is not None and vt:
        code = ('import json,sys,jsonschema;'
                'jsonschema.validate(json.load(open(sys.argv[1])), json.load(open(sys.argv[2])))')
        r = subprocess.run([vt, '-c', code, str(tmp), str(schema_path)], capture_output=True, text=True)
        if r.returncode != 0:
            tmp.unlink()
            raise ValueError('evidence fails schema validation: ' + r.stderr[-1500:])
    os.replace(tmp, out)
    return out


def _minimal_validate(ev):
    cov = ev['coverage']
    assert cov['evaluations'] >= 1, 'no evaluations'
    assert cov['distinct_nontrivial'] >= 2, 'fewer than 2 distinct nontrivial cases'
    assert cov['samples'], 'no samples'
    if ev['level'] == 'model_checking':
        assert cov['states'] >= 1 and cov['transitions'] >= 1
