"""E2: explicit-state exploration of operation histories (DESIGN.md section 3.4).

A *state* is a model state (dict / set / stack -- hashable) together with the first event history
(BFS order) that reaches it.  Live registry / mode / cache state cannot be copied, so every
transition is executed by building a fresh universe, replaying the representative history of the
source state through the real public API, and applying one more event.  After that event the
model takes the same step and the implementation's full observation vector is compared with the
model's prediction for the target state (refinement on every transition).  Because the prediction
is a function of the model state only, reaching one model state through different transitions with
different observations (history dependence, hidden state) is reported as a refinement failure of
the later transition -- the confluence check.

The model graph is enumerated identically in every worker (it is cheap); transition i is executed
by worker i mod nshards.
"""

from __future__ import annotations

import collections

from mc.runner import digest


class System:
    """Interface a property implements."""

    name = 'system'

    def initial(self):
        raise NotImplementedError

    def events(self, state):
        raise NotImplementedError

    def step(self, state, event):
        """Model step: return (new_state, expected_outcome)."""
        raise NotImplementedError

    def execute(self, history, event, src_state, dst_state, expected):
        """Run on the implementation; return list of (oracle, detail) problems (empty = refines)."""
        raise NotImplementedError

    def canon(self, state):
        return state


def bfs(ctx, system, max_depth, label=''):
    """Enumerate all model states up to `max_depth` events and execute every transition
    (including failing, self-loop ones) from every state at depth < max_depth."""
    init = system.initial()
    seen = {system.canon(init): ()}
    frontier = collections.deque([(init, ())])
    tindex = 0
    ctx.sets['states'].add(digest((label, system.canon(init))))
    while frontier:
        state, hist = frontier.popleft()
        if len(hist) >= max_depth:
            continue
        for ev in system.events(state):
            nstate, expected = system.step(state, ev)
            tindex += 1
            key = system.canon(nstate)
            new = key not in seen
            if new:
                seen[key] = (*hist, ev)
                frontier.append((nstate, (*hist, ev)))
            ctx.sets['states'].add(digest((label, key)))
            if not ctx.mine(tindex):
                continue
            tid = f'{label}#{tindex}'
            if ctx.skipped(tid):
                continue
            ctx.checkpoint(tid, {'system': system.name, 'label': label, 'history': list(hist), 'event': ev})
            ctx.count()
            ctx.extra['transitions'] += 1
            ctx.extra['traces_validated'] += 1
            ctx.extra[f'depth{len(hist) + 1}'] += 1
            problems = system.execute(hist, ev, state, nstate, expected)
            ctx.outcome(f'{label}:{ev[0]}:{expected if isinstance(expected, str) else expected[0]}')
            ctx.cls((label, key, ev[0], str(expected)))
            for oracle, detail, vkey in problems:
                ctx.violation(oracle, vkey, {'system': system.name, 'label': label,
                                             'history': [list(e) for e in hist], 'event': list(ev)}, detail)
            if len(ctx.samples) < 4 and len(hist) >= 2:
                ctx.sample({'history': [list(e) for e in hist], 'event': list(ev), 'expected': str(expected)})
    return seen


def all_histories(ctx, system, max_len, label=''):
    """Stateless variant: EVERY event history up to `max_len` (no merging of model states), each
    executed once on a fresh implementation state and checked after its last event."""
    tindex = 0
    stack = [(system.initial(), ())]
    while stack:
        state, hist = stack.pop()
        if len(hist) >= max_len:
            continue
        for ev in system.events(state):
            nstate, expected = system.step(state, ev)
            tindex += 1
            stack.append((nstate, (*hist, ev)))
            ctx.sets['states'].add(digest((label, system.canon(nstate))))
            if not ctx.mine(tindex):
                continue
            tid = f'{label}#{tindex}'
            if ctx.skipped(tid):
                continue
            ctx.checkpoint(tid, {'system': system.name, 'label': label, 'history': list(hist), 'event': ev})
            ctx.count()
            ctx.extra['transitions'] += 1
            ctx.extra['traces_validated'] += 1
            ctx.extra[f'histories_len{len(hist) + 1}'] += 1
            problems = system.execute(hist, ev, state, nstate, expected)
            ctx.cls((label, hist, ev))
            for oracle, detail, vkey in problems:
                ctx.violation(oracle, vkey, {'system': system.name, 'label': label,
                                             'history': [list(e) for e in hist], 'event': list(ev)}, detail)
