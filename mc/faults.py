"""E3: single-deviation enumeration (DESIGN.md section 3.5).

Every user callback the engine can reach goes through `FAULT.point(name)`.  The default answer is
"behave"; a deviation is "raise a unique exception instance (of one of a menu of exception types, incl. the
builtin types library code commonly catches) at the k-th invocation".  For each
(operation, scenario) the zero-deviation run counts the K invocations, then every k = 1..K is
executed with exactly one deviation, to completion.
"""

from __future__ import annotations

import gc
import sys


class Boom(Exception):
    """Injected failure; each injection is a distinct instance (identity is checked)."""


class Injector:
    def __init__(self):
        self.reset()

    def reset(self, k=None, exc=None):
        self.count = 0
        self.k = k
        self.exc = exc or Boom
        self.injected = None
        self.log = []
        self.enabled = True

    def point(self, name):
        if not self.enabled:
            return
        self.count += 1
        self.log.append(name)
        if self.k is not None and self.count == self.k:
            self.injected = self.exc(f'{name}#{self.k}')
            raise self.injected


FAULT = Injector()


def refcounts(objs):
    return [sys.getrefcount(o) for o in objs]


def run_with_fault(op, k, exc=None):
    """Run op() with a fault at the k-th callback invocation (k=None: none); the fault is a fresh instance of
    `exc` (default Boom).  Returns (kind, value): ('ok', result) | ('exc', exception)."""
    FAULT.reset(k, exc)
    try:
        return 'ok', op()
    except BaseException as ex:  # noqa: BLE001
        return 'exc', ex
    finally:
        FAULT.enabled = False


def settle():
    gc.collect()
