"""Known-findings protocol (DESIGN.md section 3.8).

/verif/known_findings.json is committed and never written at run time.  Entries:
  {"property": "C16", "key": "<violation class>", "what": "...", "status": "known" | "fixed",
   "commit": "<sha, for fixed>"}
A violation whose class key equals a `known` entry prints KNOWN-FINDING and does not fail the
check; `fixed` entries suppress nothing.
"""

from __future__ import annotations

import json
from pathlib import Path

PATH = Path(__file__).resolve().parent.parent / 'known_findings.json'


def load():
    if not PATH.exists():
        return []
    return json.loads(PATH.read_text())['findings']


def match(known, violation):
    for k in known:
        if k.get('status') != 'known':
            continue
        if k['property'] == violation['property'] and k['key'] == violation['key']:
            return k
    return None
