"""Case DSL, builder and bounded-exhaustive enumerators (DESIGN.md section 3.3).

A tree description (DSL) is JSON-serialisable:   "L"  |  [kind, params, [child, ...]]
`build(dsl)` creates the real Python object with *fresh* Leaf objects numbered in DSL
(construction) order.  Dict-like kinds carry their key list in *insertion* order and an optional
construction history, so a replay file rebuilds the identical input in a fresh process.
"""

from __future__ import annotations

import itertools
from collections import OrderedDict, defaultdict, deque

from mc import universe as un
from mc.universe import Leaf

# ---------------------------------------------------------------------------------------------
# keys


def dec_key(k):
    if isinstance(k, dict):
        if 't' in k:
            return tuple(dec_key(x) for x in k['t'])
        if 'u' in k:
            return un.UKey(k['u'])
        if 'fs' in k:
            return frozenset(dec_key(x) for x in k['fs'])
        raise ValueError(k)
    return k


def enc_key(k):
    if isinstance(k, tuple):
        return {'t': [enc_key(x) for x in k]}
    if isinstance(k, un.UKey):
        return {'u': k.n}
    if isinstance(k, frozenset):
        return {'fs': sorted(enc_key(x) for x in k)}
    return k


FACTORIES = {'none': None, 'int': int, 'list': list}

# key families, by size (insertion order = listed order; permutations applied by enumerators)
U = lambda n: {'u': n}  # noqa: E731
T = lambda *a: {'t': list(a)}  # noqa: E731
KEY_FAMILIES = {
    1: {'str': ['b'], 'int': [7], 'none': [None], 'tuple': [T(1, 2)], 'ukey': [U(1)]},
    2: {
        'str': ['a', 'b'],
        'int_str': [2, 'a'],
        'none_str': [None, 'z'],
        'tuple_str': [T(1, 2), 'z'],
        'num_cross': [2, 1.5],
        'ukey': [U(1), U(2)],
        'ukey_int': [3, U(1)],
    },
    3: {
        'str': ['a', 'b', 'c'],
        'int_str': [2, 'a', 1],
        'none_tuple_str': [None, T(1, 2), 'z'],
        'num_cross': [2, 1.5, 1],
        'ukey': [U(1), U(2), U(3)],
        'ukey_int': [3, U(1), 1],
        'int_str_ukey': [3, 'a', U(1)],
    },
}
KEY_FAMILIES[4] = {'int_ukey': [3, 1, 2, U(1)], 'str_int': ['b', 2, 'a', 1]}
KEY_FAMILIES[5] = {'mixed_unsortable': [3, 1, 'a', U(2), U(1)], 'int_str_none': [2, 'b', None, 1, 'a']}
# canonical non-sorted insertion order used by the core stratum
CORE_KEYS = {0: [], 1: ['b'], 2: ['b', 'a'], 3: ['c', 'a', 'b']}


# ---------------------------------------------------------------------------------------------
# builder


class Builder:
    def __init__(self, U_=None):
        self.leaves = []  # in construction order
        self.U = U_
        self.shared = {}  # 'share' nodes: id -> the ONE object every occurrence stands for

    def leaf(self):
        obj = Leaf(len(self.leaves))
        self.leaves.append(obj)
        return obj

    def build(self, d):  # noqa: C901, PLR0911, PLR0912
        if d == 'L':
            return self.leaf()
        kind, params, ch = d
        params = params or {}
        if kind == 'share':  # aliasing: every occurrence with the same id is the very same object (a DAG, not a tree)
            if params['id'] not in self.shared:
                self.shared[params['id']] = self.build(ch[0])
            return self.shared[params['id']]
        if kind == 'int':  # a plain int leaf (for folds / ravel)
            return params['v']
        c = [self.build(x) for x in ch]
        if kind == 'tuple':
            return tuple(c)
        if kind == 'list':
            return list(c)
        if kind in ('dict', 'odict', 'ddict', 'dictsub', 'cd'):
            keys = [dec_key(k) for k in params.get('keys', CORE_KEYS.get(len(c), []))]
            assert len(keys) == len(c), (d, keys)
            hist = params.get('hist')
            if kind == 'dict' or kind == 'cd':
                out = {}
            elif kind == 'dictsub':
                out = un.DictSub()
            elif kind == 'odict':
                out = OrderedDict()
            else:
                out = defaultdict(FACTORIES[params.get('factory', 'none')])
            if hist == 'reinsert' and keys:
                # insert everything plus a transient key, delete first and transient, re-insert
                for k, v in zip(keys, c):
                    out[k] = v
                out['__transient__'] = 0
                first = keys[0]
                del out[first]
                del out['__transient__']
                out[first] = c[0]
            elif hist == 'move_to_end' and keys:
                for k, v in zip(keys, c):
                    out[k] = v
                out.move_to_end(keys[0])
            elif hist == 'move_to_front' and keys:
                for k, v in zip(keys, c):
                    out[k] = v
                out.move_to_end(keys[-1], last=False)
            elif hist == 'missing':
                for k, v in zip(keys, c):
                    out[k] = v
                out['zz_auto']  # defaultdict auto-insertion through __missing__
            elif hist == 'update_existing' and keys:
                for k in keys:
                    out[k] = None
                for k, v in zip(reversed(keys), reversed(c)):
                    out[k] = v  # overwriting does not change the insertion order
            else:
                for k, v in zip(keys, c):
                    out[k] = v
            if kind == 'cd':
                return un.CD(out)
            return out
        if kind in ('deque', 'dequesub'):
            ml = params.get('maxlen')
            maxlen = None if ml is None else (len(c) if ml == 'len' else 1000 if ml == 'big' else len(c) + 1)
            cls = deque if kind == 'deque' else un.DequeSub
            hist = params.get('hist')
            if hist == 'rotate' and maxlen is not None:
                out = cls(['__falls_off__'] * maxlen, maxlen=maxlen)
                for v in c:
                    out.append(v)  # transient items fall off the left end at maxlen
                for _ in range(maxlen - len(c)):
                    out.popleft()
                out.rotate(1)
                out.rotate(-1)
                assert list(out) == c, (list(out), c)
                return out
            return cls(c, maxlen=maxlen)
        if kind == 'none':
            return None
        if kind == 'nt':
            return {0: un.NT0, 1: un.NT1, 2: un.NT2, 3: un.NT3}[len(c)](*c)
        if kind == 'nts':
            return un.NT2s(*c)
        if kind == 'ss2':
            return un.SS2(c)
        if kind == 'ss4':
            return un.SS4(c)
        if kind == 'ss9':
            return un.SS9(c)
        if kind == 'cg':
            return un.CG(c)
        if kind == 'cn':
            return un.CN(c, params.get('meta', 'm'))
        if kind == 'cs':
            return un.CS(c)
        if kind == 'dc':
            return self.U.DC(c[0], c[1], params.get('m', 'meta'))
        if kind == 'dc2':
            return self.U.DC2(params.get('m', 'meta2'), c[0], b=c[1])
        if kind == 'partial':
            nargs = params.get('nargs', len(c))
            kw = params.get('kw', [])
            assert nargs + len(kw) == len(c)
            return self.U.P(un.probe, *c[:nargs], **dict(zip(kw, c[nargs:])))
        if kind == 'cls':  # a class OBJECT as an opaque leaf
            return class_leaf(params['c'], self.U)
        if kind == 'listsub':
            return un.ListSub(c)
        if kind == 'tuplesub':
            return un.TupleSub(c)
        if kind == 'odictsub':
            keys = [dec_key(k) for k in params['keys']] if 'keys' in params else [f'k{i}' for i in range(len(c))]
            return un.ODictSub(zip(keys, c))
        if kind == 'ddictsub':
            keys = [dec_key(k) for k in params['keys']] if 'keys' in params else [f'k{i}' for i in range(len(c))]
            return un.DDictSub(FACTORIES[params.get('factory', 'none')], zip(keys, c))
        raise ValueError(f'unknown kind {kind!r}')


def build(d, U_=None):
    b = Builder(U_)
    return b.build(d), b.leaves


def dsl_size(d):
    if d == 'L':
        return 1
    return 1 + sum(dsl_size(c) for c in d[2])


def dsl_repr(d):
    if d == 'L':
        return '*'
    kind, params, ch = d
    p = ''
    if params:
        p = '{' + ','.join(f'{k}={v}' for k, v in sorted(params.items())) + '}'
    return f'{kind}{p}(' + ','.join(dsl_repr(c) for c in ch) + ')'


# ---------------------------------------------------------------------------------------------
# core stratum: all trees with <= B nodes over the core kinds

CORE_KINDS = ('tuple', 'list', 'dict', 'nt', 'cn')  # arity 0..3 each; plus 'none' (arity 0)


def _compositions(total, parts):
    if parts == 1:
        if total >= 1:
            yield (total,)
        return
    for first in range(1, total - parts + 2):
        for rest in _compositions(total - first, parts - 1):
            yield (first, *rest)


def core_by_size(max_nodes, kinds=CORE_KINDS, max_arity=3, with_none=True):
    """Return list-of-lists: trees[n] = all DSL trees with exactly n nodes."""
    trees = [[], []]
    base = ['L']
    for k in kinds:
        base.append([k, None, []])
    if with_none:
        base.append(['none', None, []])
    trees[1] = base
    for n in range(2, max_nodes + 1):
        cur = []
        for k in kinds:
            for arity in range(1, max_arity + 1):
                for comp in _compositions(n - 1, arity):
                    for combo in itertools.product(*(trees[m] for m in comp)):
                        cur.append([k, None, list(combo)])
        trees.append(cur)
    return trees


def core_exact_iter(n, kinds=CORE_KINDS, max_arity=3):
    """Lazily yield all trees with EXACTLY n nodes (n >= 2) without materialising the level."""
    trees = core_by_size(n - 1, kinds, max_arity)
    for k in kinds:
        for arity in range(1, max_arity + 1):
            for comp in _compositions(n - 1, arity):
                for combo in itertools.product(*(trees[m] for m in comp)):
                    yield [k, None, list(combo)]


def core_trees(max_nodes, **kw):
    out = []
    for lst in core_by_size(max_nodes, **kw)[1:]:
        out.extend(lst)
    return out


# ---------------------------------------------------------------------------------------------
# cell stratum: every kind x kind nesting over the full alphabet

# (kind, params, arity) canonical forms.  arity None = flexible (use 3 as parent, 2 as child)
FIXED_ARITY = {'nts': 2, 'ss2': 2, 'ss4': 4, 'ss9': 9, 'dc': 2, 'dc2': 2, 'none': 0, 'cls': 0}
SEQ_KINDS = ['tuple', 'list', 'nt', 'nts', 'ss2', 'ss4', 'ss9', 'cg', 'cn', 'cs', 'dc', 'dc2', 'partial']
DICT_KINDS = ['dict', 'odict', 'ddict']
LEAFLIKE_KINDS = ['listsub', 'tuplesub', 'dictsub', 'odictsub', 'ddictsub', 'dequesub', 'cls']
CLASS_LEAVES = ['nt', 'ss', 'tuple', 'dict', 'cg', 'dc', 'nonetype']


def class_leaf(name, U):
    """Class objects used as leaves: their exact type is `type`, which is never registered."""
    return {'nt': un.NT2, 'ss': un.SS2, 'tuple': tuple, 'dict': dict, 'cg': un.CG, 'dc': un.DC,
            'nonetype': type(None)}[name]

ALL_NODE_KINDS = [*SEQ_KINDS, *DICT_KINDS, 'deque', 'cd', 'none']


def variants(kind, arity, full=True):  # noqa: C901
    """All parameter variants of `kind` at `arity` (canonical first)."""
    if kind in DICT_KINDS or kind == 'cd' or kind == 'dictsub':
        fams = KEY_FAMILIES.get(arity)
        if arity == 0 or fams is None:
            base = [{'keys': CORE_KEYS.get(arity, [f'k{i}' for i in range(arity)])}]
            if kind == 'ddict':
                return [dict(b, factory=f) for b in base for f in (['none', 'int'] if full else ['none'])]
            return base
        out = []
        names = list(fams)
        if kind == 'cd':
            names = ['str']  # CD sorts its own keys with plain sorted()
        for name in names:
            perms = list(itertools.permutations(fams[name]))
            if not full:
                perms = perms[-1:]  # a non-sorted order
            for perm in perms:
                out.append({'keys': list(perm)})
            if not full:
                break
        if kind == 'ddict':
            facs = ['none', 'int', 'list'] if full else ['list']
            out = [dict(v, factory=facs[i % len(facs)]) for i, v in enumerate(out)]
        if full and kind != 'cd' and kind != 'dictsub' and 'str' in fams:
            fam = fams['str']
            rev = list(reversed(fam))
            out.append({'keys': rev, 'hist': 'reinsert'})
            out.append({'keys': rev, 'hist': 'update_existing'})
            if kind == 'odict':
                out.append({'keys': rev, 'hist': 'move_to_end'})
                out.append({'keys': rev, 'hist': 'move_to_front'})
            if kind == 'ddict':
                out[-1]['factory'] = 'int'
                out[-2]['factory'] = 'list'
                out.append({'keys': rev, 'hist': 'missing', 'factory': 'int'})
                out.append({'keys': rev, 'hist': 'missing', 'factory': 'list'})
        return out
    if kind in ('deque', 'dequesub'):
        if not full:
            return [{'maxlen': 'len+1'}]
        return [{'maxlen': None}, {'maxlen': 'len'}, {'maxlen': 'len+1'},
                {'maxlen': 'len', 'hist': 'rotate'}, {'maxlen': 'len+1', 'hist': 'rotate'},
                {'maxlen': 'big'}]  # 1000: an int outside CPython's small-int cache (a fresh object on every read)
    if kind == 'cls':
        return [{'c': c} for c in (CLASS_LEAVES if full else CLASS_LEAVES[:1])]
    if kind == 'cn':
        return [{'meta': 'm'}, {'meta': 'other'}] if full else [{'meta': 'm'}]
    if kind == 'partial':
        if arity == 0:
            return [{'nargs': 0, 'kw': []}]
        outs = [{'nargs': arity, 'kw': []}]
        if arity >= 2:
            outs.append({'nargs': arity - 1, 'kw': ['kw']})
            if full:
                outs.append({'nargs': 0, 'kw': [f'k{i}' for i in range(arity - 1, -1, -1)]})
        return outs
    return [None]


FILLER_BIG = ['tuple', None, ['L', 'L']]  # 3 nodes


def parent_arity(kind):
    return FIXED_ARITY.get(kind, 3)


def child_arity(kind):
    return FIXED_ARITY.get(kind, 2)


def positions(arity):
    if arity <= 3:
        return list(range(arity))
    return sorted({0, arity // 2, arity - 1})


def place(kind, params, arity, pos, child):
    """Parent of `kind` with `child` at `pos`; siblings have unequal sizes."""
    ch = []
    for i in range(arity):
        if i == pos:
            ch.append(child)
        elif i < pos:
            ch.append(FILLER_BIG)  # bigger sibling before
        else:
            ch.append('L')
    return [kind, params, ch]


def node_of(kind, params, arity):
    return [kind, params, ['L'] * arity]


def cell_singles(full=True):
    """Every kind x variant as a one-level tree (arity 0..3 for flexible kinds)."""
    out = []
    for kind in [*ALL_NODE_KINDS, *LEAFLIKE_KINDS]:
        arities = [FIXED_ARITY[kind]] if kind in FIXED_ARITY else [0, 1, 2, 3]
        if kind in DICT_KINDS:
            arities = [0, 1, 2, 3, 4, 5]  # larger key sets: every insertion permutation
        for a in arities:
            for v in variants(kind, a, full):
                out.append(node_of(kind, v, a))
    return out


def cell_pairs(full=True):
    """parent ⊃ child for every ordered kind pair, every position, unequal sibling sizes.
    full=True: parent variants x child variants; else (all parent variants x canonical child) ∪
    (canonical parent x all child variants)."""
    out = []
    child_kinds = [*ALL_NODE_KINDS, *LEAFLIKE_KINDS]
    for pk in ALL_NODE_KINDS:
        pa = parent_arity(pk)
        if pa == 0:
            continue
        pvars = variants(pk, pa, True)
        for ck in child_kinds:
            ca = child_arity(ck)
            cvars = variants(ck, ca, True)
            if full == 'canon':
                combos = [(variants(pk, pa, False)[0], variants(ck, ca, False)[0])]
            elif full:
                combos = [(pv, cv) for pv in pvars for cv in cvars]
            else:
                combos = [(pv, cvars[0]) for pv in pvars] + [(pvars[0], cv) for cv in cvars[1:]]
            for pv, cv in combos:
                child = node_of(ck, cv, ca)
                for pos in positions(pa):
                    out.append(place(pk, pv, pa, pos, child))
    return out


def cell_triples(position_mode='ends'):
    """a ⊃ b ⊃ c chains over all kind triples with canonical (non-sorted) variants."""
    out = []

    def canon(kind, arity):
        return variants(kind, arity, False)[0]

    kinds = ALL_NODE_KINDS
    for ak in kinds:
        aa = parent_arity(ak)
        if aa == 0:
            continue
        av = canon(ak, aa)
        for bk in kinds:
            ba = parent_arity(bk)
            if ba == 0:
                continue
            bv = canon(bk, ba)
            for ck in [*kinds, *LEAFLIKE_KINDS]:
                ca = child_arity(ck)
                cnode = node_of(ck, canon(ck, ca), ca)
                pbs = positions(ba)
                pas = positions(aa)
                if position_mode == 'ends':
                    pbs = sorted({pbs[0], pbs[-1]})
                    pas = sorted({pas[0], pas[-1]})
                for pb in pbs:
                    bnode = place(bk, bv, ba, pb, cnode)
                    for pa in pas:
                        out.append(place(ak, av, aa, pa, bnode))
    return out


def shard(seq, i, n):
    return seq[i::n]


def features(d, acc=None):
    """Structural features of a DSL tree used by violation classifiers."""
    if acc is None:
        acc = set()
    if d == 'L':
        return acc
    kind, params, ch = d
    acc.add(kind)
    params = params or {}
    for k in params.get('keys', ()):
        if isinstance(k, dict) and 'u' in k:
            acc.add('key:ukey')
        elif isinstance(k, dict) and 't' in k:
            acc.add('key:tuple')
    keys = params.get('keys')
    if keys is not None and kind in ('dict', 'ddict'):
        dk = [dec_key(k) for k in keys]
        try:
            sorted(dk)
        except TypeError:
            acc.add('keys:mixed')
            try:
                sorted(dk, key=lambda k: (f'{type(k).__module__}.{type(k).__qualname__}', k))
            except TypeError:
                acc.add('keys:unsortable')
    if params.get('hist'):
        acc.add('hist:' + params['hist'])
    for c in ch:
        features(c, acc)
    return acc


# ---------------------------------------------------------------------------------------------
# DSL surgery (pairs / near misses)


def node_paths(d, prefix=()):
    """Paths (tuples of child indices) of every node of the DSL tree, pre-order, leaves included."""
    yield prefix
    if d != 'L':
        for i, c in enumerate(d[2]):
            yield from node_paths(c, (*prefix, i))


def get_at(d, path):
    for i in path:
        d = d[2][i]
    return d


def replace_at(d, path, new):
    if not path:
        return new
    kind, params, ch = d
    ch = list(ch)
    ch[path[0]] = replace_at(ch[path[0]], path[1:], new)
    return [kind, params, ch]


def substitute_leaves(d, sub):
    """Every "L" replaced by the DSL `sub` (a true suffix of d)."""
    if d == 'L':
        return sub
    return [d[0], d[1], [substitute_leaves(c, sub) for c in d[2]]]


def _keys_of(d):
    kind, params, ch = d
    return list((params or {}).get('keys', CORE_KEYS.get(len(ch), [])))


def dict_variant(d):
    """Same structure, but dict kinds rotated (dict->odict->ddict->dict) with reversed insertion
    order and deque maxlen changed: must still match as prefix / rest."""
    if d == 'L':
        return d
    kind, params, ch = d
    ch = [dict_variant(c) for c in ch]
    params = dict(params or {})
    if kind in DICT_KINDS:
        keys = _keys_of(d)
        nk = {'dict': 'odict', 'odict': 'ddict', 'ddict': 'dict'}[kind]
        params = {'keys': list(reversed(keys))}
        if nk == 'ddict':
            params['factory'] = 'list'
        return [nk, params, list(reversed(ch))]
    if kind == 'deque':
        params['maxlen'] = {None: 'len+1', 'len': None, 'len+1': 'len', 'big': None}[params.get('maxlen')]
        params.pop('hist', None)
        return [kind, params, ch]
    return [kind, params or None, ch]


SEQ_SWAP = {'tuple': 'list', 'list': 'tuple', 'cg': 'cs', 'cs': 'cg', 'nt': 'tuple', 'nts': 'nt', 'ss2': 'nts'}


def local_edits(d, path):  # noqa: C901
    """One-edit near misses applied at the node at `path` (list of (label, new DSL))."""
    node = get_at(d, path)
    out = []
    if node == 'L':
        return out
    kind, params, ch = node
    params = dict(params or {})

    def put(label, new):
        out.append((label, replace_at(d, path, new)))

    if kind in SEQ_SWAP and (SEQ_SWAP[kind] not in FIXED_ARITY or FIXED_ARITY[SEQ_SWAP[kind]] == len(ch)):
        put(f'kind:{kind}->{SEQ_SWAP[kind]}', [SEQ_SWAP[kind], None, ch])
    if kind == 'nt' and len(ch) == 2:
        put('ntclass:NT2->NT2s', ['nts', None, ch])
    if kind in DICT_KINDS:
        keys = _keys_of(node)
        put(f'kind:{kind}->list', ['list', None, ch])
        if keys:
            renamed = [*keys[:-1], 'renamed_key']
            put('key:rename', [kind, dict(params, keys=renamed), ch])
            put('key:drop', [kind, dict(params, keys=keys[:-1]), ch[:-1]])
            if len(keys) >= 2:
                p3 = dict(params, keys=[f'new{i}' for i in range(len(keys))])
                p3.pop('hist', None)
                put('key:replace-all', [kind, p3, ch])
        if len(keys) < 5:
            p2 = dict(params, keys=[*keys, 'added_key'])
            p2.pop('hist', None)
            put('key:add', [kind, p2, [*ch, 'L']])
    elif kind in ('tuple', 'list', 'deque', 'cg', 'cn', 'cs'):
        if ch:
            put('arity:-1', [kind, params or None, ch[:-1]])
        put('arity:+1', [kind, params or None, [*ch, 'L']])
    if kind == 'deque':
        put('kind:deque->list', ['list', None, ch])
    if kind == 'cn':
        put('meta:change', ['cn', dict(params, meta='changed'), ch])
    if kind == 'cd':
        keys = _keys_of(node)
        if keys:
            put('cd:key-rename', ['cd', dict(params, keys=[*keys[:-1], 'zz']), ch])
    if kind in ('dc', 'dc2'):
        put('dc:meta-change', [kind, {'m': 'changed'}, ch])
    if kind == 'none':
        put('none->tuple0', ['tuple', None, []])
    # the same container as an instance of an (unregistered) SUBCLASS: same keys / length / maxlen, but a leaf
    sub = {'dict': 'dictsub', 'odict': 'odictsub', 'ddict': 'ddictsub', 'deque': 'dequesub', 'list': 'listsub',
           'tuple': 'tuplesub'}.get(kind)
    if sub:
        p4 = {k: v for k, v in params.items() if k != 'hist'}
        put(f'kind:{kind}->subclass-instance', [sub, p4 or None, ch])
    put('node->leaf', 'L')
    return out


# ---------------------------------------------------------------------------------------------
# leafless-subtree stratum: multi-node subtrees WITHOUT leaves next to leaves (cursor / offset logic that
# skips or shortcuts leafless regions)

LEAFLESS_SHAPES = [
    ['list', None, [['none', None, []]]],
    ['tuple', None, [['none', None, []], ['none', None, []]]],
    ['dict', {'keys': ['k']}, [['none', None, []]]],
    ['list', None, [['tuple', None, []]]],
    ['tuple', None, [['list', None, []], ['dict', {'keys': []}, []]]],
    ['cn', {'meta': 'm'}, [['none', None, []]]],
    ['odict', {'keys': ['z', 'a']}, [['tuple', None, []], ['list', None, [['none', None, []]]]]],
    ['deque', {'maxlen': None}, [['nt', None, []]]],
    ['nt', None, [['none', None, []]]],
]


ALIAS_SHAPES = ['L', ['list', None, ['L']], ['dict', {'keys': ['k']}, ['L']], ['tuple', None, ['L', 'L']],
                ['cn', {'meta': 'm'}, ['L']], ['odict', {'keys': ['z', 'a']}, ['L', 'L']], ['list', None, []]]


def aliasing_trees():
    """Inputs in which the same leaf object / the same container object occurs more than once (DAGs): optree treats
    every occurrence as a separate subtree; an identity-keyed memo or a 'visited' set in a traversal would not."""
    out = []
    parents = [('tuple', None), ('list', None), ('dict', {'keys': ['b', 'a', 'c']}), ('odict', {'keys': ['b', 'a', 'c']}),
               ('deque', {'maxlen': 'len+1'}), ('nt', None), ('cn', {'meta': 'm'}), ('cg', None),
               ('ddict', {'keys': ['b', 'a', 'c'], 'factory': 'list'})]
    for shape in ALIAS_SHAPES:
        S = ['share', {'id': 1}, [shape]]
        for pk, pv in parents:
            out.append([pk, pv, [S, S, 'L']])
            out.append([pk, pv, [S, 'L', S]])
            out.append([pk, pv, [S, S, S]])
            out.append([pk, pv, [S, ['list', None, [S, 'L']], ['tuple', None, [['dict', {'keys': ['q']}, [S]]]]]])
    return out


def leafless_trees():
    out = []
    parents = [('tuple', None), ('list', None), ('dict', {'keys': ['b', 'a', 'c']}), ('odict', {'keys': ['b', 'a', 'c']}),
               ('deque', {'maxlen': 'len+1'}), ('nt', None), ('cn', {'meta': 'm'}), ('cg', None),
               ('ddict', {'keys': ['b', 'a', 'c'], 'factory': 'list'})]
    for shape in LEAFLESS_SHAPES:
        out.append(shape)  # wholly leafless tree
        for pk, pv in parents:
            for pos in range(3):
                ch = ['L', 'L', 'L']
                ch[pos] = shape
                out.append([pk, pv, ch])
            out.append([pk, pv, [shape, 'L', shape]])
            out.append([pk, pv, [shape, shape, shape]])
    return out
