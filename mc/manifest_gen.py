"""Regenerates /verif/MANIFEST.json from mc/props/specs.json (single source of truth)."""

from __future__ import annotations

import json
from pathlib import Path

VERIF = Path(__file__).resolve().parent.parent
ALL = [f'C{i:02d}' for i in range(1, 21)]


def main():
    specs = json.loads((VERIF / 'mc' / 'props' / 'specs.json').read_text())
    checks = []
    for pid in ALL:
        s = specs.get(pid)
        if not s or s.get('disabled'):
            continue
        checks.append({
            'property_id': pid,
            'quick_cmd': f'./check {pid} --tier quick',
            'thorough_cmd': f'./check {pid} --tier thorough',
            'evidence_file': f'/verif/evidence/{pid}.json',
            'replay_cmd_template': f'./check {pid} --replay {{path}}',
            'engine': s.get('engine', 'E1'),
            'level_claimed': {
                'category': s['level'],
                'text': s.get('level_text', s['rule'][:400]),
                'design_ref': f'DESIGN.md section 4, {pid}',
            },
            'level_note': '; '.join(s.get('assumptions', [])) or 'see DESIGN.md',
            'technique': s.get('technique', 'bounded exhaustive enumeration of inputs x configurations on the real engine against a reference model'),
        })
    na = []
    for pid in ALL:
        s = specs.get(pid)
        if not s or s.get('disabled'):
            na.append({'property_id': pid, 'reason': (s or {}).get('disabled', 'check not built yet in this round (planned: DESIGN.md section 4)')})
    man = {
        'version': 1,
        'setup_cmd': '/venv/bin/python -m mc.build rel asan',
        'hooks': {
            'guard': 'METAOPT_OPTREE_VERIF',
            'enable': 'no source hooks are needed: every observation is made through the public API, sys.getrefcount, gc, weakref and process exit status; checks rebuild the engine from /repo working tree (mc/build.py)',
            'baseline_off_cmd': 'cd /repo && /venv/bin/python -m pytest -ra -q -p no:cacheprovider --timeout=900 --continue-on-collection-errors',
            'source_commits': [],
            'add_only': True,
        },
        'engines': [
            {'name': 'E1', 'path': 'mc/e1.py', 'serves_properties': [], 'kind_free_text': 'bounded-exhaustive input x configuration enumerator with pure-Python reference model'},
            {'name': 'E2', 'path': 'mc/explore.py', 'serves_properties': [], 'kind_free_text': 'explicit-state BFS over operation histories on the real API, per-transition refinement + confluence'},
            {'name': 'E3', 'path': 'mc/faults.py', 'serves_properties': [], 'kind_free_text': 'single-deviation (k-th callback raises / mutates / malformed) enumerator, optionally under ASan+UBSan'},
            {'name': 'E4', 'path': 'mc/sched.py', 'serves_properties': [], 'kind_free_text': 'stateless thread-interleaving explorer (baton scheduler, iterative preemption bounding, hang watchdog)'},
        ],
        'checks': checks,
        'not_applicable': na,
        'notes': 'See DESIGN.md. ./check <ID> --tier quick|thorough; exit 0/1/2; known findings in known_findings.json.',
    }
    for e in man['engines']:
        e['serves_properties'] = [c['property_id'] for c in checks if c['engine'] == e['name']]
    (VERIF / 'MANIFEST.json').write_text(json.dumps(man, indent=1) + '\n')


if __name__ == '__main__':
    main()
