"""Exact structural equality and small helpers (DESIGN.md section 3.3).

`same_tree(a, b)`: same `type()` at every node, same keys *in the same order*, same maxlen /
default_factory / namedtuple class / custom metadata, and leaf *identity* at leaf positions.
Python `==` is never used as the oracle for trees (it ignores key order and subtype).
"""

from __future__ import annotations

from collections import OrderedDict, defaultdict, deque


def same_key(a, b):
    return type(a) is type(b) and a == b


def why_different(a, b, U, path='$'):  # noqa: C901, PLR0911, PLR0912
    """None if same_tree else a string explaining the first difference."""
    if a is b:
        return None
    ta = type(a)
    if ta is not type(b):
        return f'{path}: type {ta.__name__} vs {type(b).__name__}'
    if ta is tuple or ta is list or ta in U.nt_types or ta in U.ss_types or ta is deque:
        if ta is deque and a.maxlen != b.maxlen:
            return f'{path}: maxlen {a.maxlen} vs {b.maxlen}'
        if len(a) != len(b):
            return f'{path}: len {len(a)} vs {len(b)}'
        for i, (x, y) in enumerate(zip(a, b)):
            r = why_different(x, y, U, f'{path}[{i}]')
            if r:
                return r
        return None
    if ta is dict or ta is OrderedDict or ta is defaultdict:
        ka, kb = list(a), list(b)
        if len(ka) != len(kb) or not all(same_key(x, y) for x, y in zip(ka, kb)):
            return f'{path}: keys {ka!r} vs {kb!r}'
        if ta is defaultdict and a.default_factory is not b.default_factory:
            return f'{path}: default_factory {a.default_factory} vs {b.default_factory}'
        for k in ka:
            r = why_different(a[k], b[k], U, f'{path}[{k!r}]')
            if r:
                return r
        return None
    reg = U.any_reg(ta)
    if reg is not None:
        oa, ob = reg.flatten(a), reg.flatten(b)
        if not (oa[1] == ob[1]):
            return f'{path}: custom metadata {oa[1]!r} vs {ob[1]!r}'
        ca, cb = list(oa[0]), list(ob[0])
        if len(ca) != len(cb):
            return f'{path}: custom arity {len(ca)} vs {len(cb)}'
        for i, (x, y) in enumerate(zip(ca, cb)):
            r = why_different(x, y, U, f'{path}<{i}>')
            if r:
                return r
        return None
    return f'{path}: distinct leaf objects {a!r} vs {b!r}'


def same_tree(a, b, U):
    return why_different(a, b, U) is None


def ident_list(xs):
    return [id(x) for x in xs]


def same_objects(xs, ys):
    xs = list(xs)
    ys = list(ys)
    return len(xs) == len(ys) and all(x is y for x, y in zip(xs, ys))
