"""C01  Flatten then unflatten reconstructs the same tree  (E1; DESIGN.md section 4, C01)."""

from __future__ import annotations

from collections import deque

import optree

from mc import e1, gen
from mc import universe as un
from mc.oracle import same_objects, why_different

PROP = 'C01'


def _key(oracle, dsl, cfg):
    return f'{PROP}:{oracle}'


def check(ctx, tree, leaves0, dsl, cfg):  # noqa: C901, PLR0912
    U, _ = e1.universe()
    kw = e1.kw_of(cfg)
    case = {'tree': dsl, 'cfg': cfg}
    ctx.count()
    flat = e1.ref_flatten(tree, cfg)
    try:
        leaves, spec = optree.tree_flatten(tree, **kw)
    except Exception as ex:  # noqa: BLE001
        ctx.violation('flatten-raises', _key('flatten-raises', dsl, cfg), case, repr(ex))
        return
    n = len(leaves)
    if e1.nontrivial(flat.desc):
        ctx.cls(e1.class_key(flat, cfg))
    ctx.outcome(f'leaves={n},nodes={spec.num_nodes}')
    if not same_objects(leaves, flat.leaves):
        ctx.violation('leaves-vs-reference', _key('leaves-vs-reference', dsl, cfg), case,
                      f'engine {leaves!r} reference {flat.leaves!r}')
        return
    if spec.num_leaves != n or spec.num_nodes != flat.desc.num_nodes:
        ctx.violation('counts', _key('counts', dsl, cfg), case,
                      f'num_leaves={spec.num_leaves} n={n} num_nodes={spec.num_nodes} ref={flat.desc.num_nodes}')
    # 1. round trip through the three unflatten routes
    for route, fn in (
        ('tree_unflatten', lambda: optree.tree_unflatten(spec, leaves)),
        ('spec.unflatten', lambda: spec.unflatten(iter(leaves))),
        ('tree_unflatten[tuple]', lambda: optree.tree_unflatten(spec, tuple(leaves))),
        ('tree_unflatten[generator]', lambda: optree.tree_unflatten(spec, (x for x in leaves))),
        ('spec.unflatten[deque]', lambda: spec.unflatten(deque(leaves))),
        ('tree_map-identity', lambda: optree.tree_map(lambda x: x, tree, **kw)),
    ):
        try:
            rebuilt = fn()
        except Exception as ex:  # noqa: BLE001
            ctx.violation(f'roundtrip-raises:{route}', _key('roundtrip-raises', dsl, cfg), case, repr(ex))
            continue
        why = why_different(tree, rebuilt, U)
        if why:
            ctx.violation(f'roundtrip:{route}', _key('roundtrip', dsl, cfg), case,
                          f'{why}; original {tree!r} rebuilt {rebuilt!r}')
            continue
    # 2. re-flatten the rebuilt tree
    # (a leaf directly under optree.functools.partial is its args tuple / keywords dict, which
    # functools.partial itself copies on construction: identity cannot be demanded there)
    partial_child_leaf = any(t and t[-1][1] is U.P for t in flat.typed)
    rebuilt = optree.tree_unflatten(spec, leaves)
    leaves2, spec2 = optree.tree_flatten(rebuilt, **kw)
    if partial_child_leaf:
        if len(leaves2) != n or any(why_different(x, y, U) for x, y in zip(leaves2, leaves)):
            ctx.violation('reflatten-leaves', _key('reflatten-leaves', dsl, cfg), case, f'{leaves2!r} vs {leaves!r}')
    elif not same_objects(leaves2, leaves):
        ctx.violation('reflatten-leaves', _key('reflatten-leaves', dsl, cfg), case, f'{leaves2!r} vs {leaves!r}')
    if not (spec2 == spec) or spec2 != spec or hash(spec2) != hash(spec):
        ctx.violation('reflatten-spec', _key('reflatten-spec', dsl, cfg), case, f'{spec2!r} vs {spec!r}')
    # 3. replacement leaves
    # (skipped when a leaf sits directly under optree.functools.partial: its constructor demands a
    # tuple / dict there, so an arbitrary replacement object is not a valid input)
    if not partial_child_leaf:
        fresh = [un.Leaf(1000 + i) for i in range(n)]
        t2 = optree.tree_unflatten(spec, fresh)
        got = optree.tree_leaves(t2, **kw)
        if cfg['pred'] == 'leafbox':
            want = e1.ref_flatten(t2, cfg).leaves  # context-dependent predicate: use the reference
        else:
            want = fresh
        if not same_objects(got, want):
            ctx.violation('replacement-leaves', _key('replacement-leaves', dsl, cfg), case,
                          f'{got!r} vs {want!r} (tree {t2!r})')
    else:
        ctx.extra['replacement-skipped(partial-child-leaf)'] += 1
    # 4. wrong leaf counts
    for bad in ([*leaves, un.Leaf(-1)], leaves[:-1] if n else None):
        if bad is None:
            continue
        try:
            r = optree.tree_unflatten(spec, bad)
        except ValueError:
            continue
        except Exception as ex:  # noqa: BLE001
            ctx.violation('wrong-count-exception', _key('wrong-count-exception', dsl, cfg), case, repr(ex))
        else:
            ctx.violation('wrong-count-accepted', _key('wrong-count-accepted', dsl, cfg), case, repr(r))


def run_shard(ctx):
    extra = (('aliasing', tuple(gen.aliasing_trees())), *((e1.core6_stratum(),) if ctx.tier == 'thorough' else ()))
    e1.drive(ctx, ctx.tier, lambda tree, leaves, dsl, cfg: check(ctx, tree, leaves, dsl, cfg), extra_strata=extra)


def replay(case, ctx):
    e1.replay_case(case['case'] if 'case' in case and 'tree' not in case else case,
                   lambda tree, leaves, dsl, cfg: check(ctx, tree, leaves, dsl, cfg))


_ = gen
