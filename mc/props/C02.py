"""C02  Leaf order and node/leaf classification follow the documented rules (E1)."""

from __future__ import annotations

from collections import OrderedDict, defaultdict, deque

import sys

import optree

from mc import e1, gen
from mc import universe as un
from mc.e1 import outcome_of
from mc.oracle import same_objects

PROP = 'C02'


def _key(oracle, dsl):
    f = gen.features(dsl)
    if 'keys:unsortable' in f and oracle in ('leaves-vs-reference', 'paths-vs-reference', 'structure-vs-reference'):
        return f'{PROP}:{oracle}:unsortable-keys-fallback-order'
    return f'{PROP}:{oracle}'


def permute_dicts(o, cfg):
    """Copy of the tree with every dict / defaultdict *node* rebuilt in reversed insertion order;
    leaves (by the configuration's own classification) are shared.  Equal as Python values."""
    U, R = e1.universe()
    pred = un.PREDICATES[cfg['pred']]
    kind, reg = R.classify(o, cfg['nil'], cfg['ns'], pred)
    if kind in ('leaf', 'none'):
        return o
    rec = lambda c: permute_dicts(c, cfg)  # noqa: E731
    t = type(o)
    if kind == 'dict':
        return {k: rec(o[k]) for k in reversed(list(o))}
    if kind == 'ddict':
        return defaultdict(o.default_factory, {k: rec(o[k]) for k in reversed(list(o))})
    if kind == 'odict':
        return OrderedDict((k, rec(v)) for k, v in o.items())
    if kind == 'tuple':
        return tuple(rec(c) for c in o)
    if kind == 'list':
        return [rec(c) for c in o]
    if kind == 'deque':
        return deque((rec(c) for c in o), maxlen=o.maxlen)
    if kind == 'namedtuple':
        return t(*(rec(c) for c in o))
    if kind == 'structseq':
        return t([rec(c) for c in o])
    out = reg.flatten(o)
    return reg.unflatten(out[1], [rec(c) for c in out[0]])


def check(ctx, tree, leaves0, dsl, cfg):  # noqa: C901, PLR0912
    U, _ = e1.universe()
    kw = e1.kw_of(cfg)
    case = {'tree': dsl, 'cfg': cfg}
    ctx.count()
    flat = e1.ref_flatten(tree, cfg)
    un.RECORD = True
    del un.CALLS[:]
    try:
        leaves, spec = optree.tree_flatten(tree, **kw)
    finally:
        un.RECORD = False
    calls = list(un.CALLS)
    if e1.nontrivial(flat.desc):
        ctx.cls(e1.class_key(flat, cfg))
    ctx.outcome(f'root={flat.desc.kind},leaves={len(leaves)}')
    if not same_objects(leaves, flat.leaves):
        ctx.violation('leaves-vs-reference', _key('leaves-vs-reference', dsl), case,
                      f'engine {leaves!r} reference {flat.leaves!r}')
        return
    # the same order / classification rules for the other two traversal engines (lazy iterator, path walk)
    for name, fn in (('tree_iter', lambda: list(optree.tree_iter(tree, **kw))),
                     ('tree_flatten_with_path', lambda: optree.tree_flatten_with_path(tree, **kw)[1])):
        got = fn()
        if not same_objects(got, flat.leaves) and not (
                cfg['pred'] == 'leafbox' and any(t and t[-1][1] is U.P for t in flat.typed)):
            ctx.violation(f'{name}-vs-reference', _key(f'{name}-vs-reference', dsl), case,
                          f'{name} {got!r} reference {flat.leaves!r}')
    why = e1.spec_vs_desc(spec, flat.desc)
    if why:
        ctx.violation('structure-vs-reference', _key('structure-vs-reference', dsl), case, why)
        return
    paths = optree.tree_paths(tree, **kw)
    if paths != flat.paths:
        ctx.violation('paths-vs-reference', _key('paths-vs-reference', dsl), case,
                      f'{paths!r} vs {flat.paths!r}')
    if spec.namespace != flat.namespace or spec.none_is_leaf != cfg['nil']:
        ctx.violation('spec-options', _key('spec-options', dsl), case,
                      f'namespace {spec.namespace!r} vs {flat.namespace!r}; nil {spec.none_is_leaf}')
    # predicate before registry: a custom object for which the predicate is true must not be flattened
    pred = un.PREDICATES[cfg['pred']]
    if pred is not None:
        leaf_ids = {id(x) for x in flat.leaves}
        for what, tag, oid in calls:
            if oid in leaf_ids:
                ctx.violation('predicate-before-registry', _key('predicate-before-registry', dsl), case,
                              f'{what} {tag} called on an object the predicate declares a leaf')
    # flatten functions called exactly for the custom nodes the reference found, in post... order
    # (each custom node object flattened exactly once)
    recorded_types = (un.CG, un.CN, un.CD, un.CS)
    want_custom = [id(o) for o in flat.internal_post if type(o) in recorded_types
                   and U.lookup(type(o), cfg['ns']) is not None]
    got_custom = [oid for what, tag, oid in calls if what == 'flatten']
    if sorted(want_custom) != sorted(got_custom):
        ctx.violation('custom-flatten-calls', _key('custom-flatten-calls', dsl), case,
                      f'flatten calls {len(got_custom)} vs custom nodes {len(want_custom)}')
    sorted_mode = not (cfg['ns'] in e1.S_of(cfg) or '' in e1.S_of(cfg))
    feats = gen.features(dsl)
    # law (a): equal dicts flatten equally regardless of insertion order (sorted mode, orderable keys)
    if sorted_mode and 'keys:unsortable' not in feats and ({'dict', 'ddict'} & feats):
        twin = permute_dicts(tree, cfg)
        l2, s2 = optree.tree_flatten(twin, **kw)
        ctx.extra['law-a-evaluated'] += 1
        if cfg['pred'] == 'leafbox' or any(t and t[-1][1] is U.P for t in flat.typed):
            # context-dependent predicate / partial copies its args tuple and keywords dict
            ok = len(l2) == len(leaves)
        else:
            ok = same_objects(l2, leaves)
        if not ok or s2 != spec or hash(s2) != hash(spec):
            ctx.violation('permutation-invariance', _key('permutation-invariance', dsl), case,
                          f'{l2!r},{s2!r} vs {leaves!r},{spec!r}')
    # law (b): none_is_leaf=False leaves == none_is_leaf=True leaves minus None
    if not cfg['nil'] and cfg['pred'] not in ('always', 'is_none', 'tuple_or_none'):
        lt = optree.tree_leaves(tree, is_leaf=kw['is_leaf'], none_is_leaf=True, namespace=cfg['ns'])
        if not same_objects([x for x in lt if x is not None], leaves):
            ctx.violation('none-law', _key('none-law', dsl), case, f'{lt!r} vs {leaves!r}')
        if cfg['pred'] == 'none':
            sentinel = un.Leaf(-7)
            rep = optree.tree_replace_nones(sentinel, tree, namespace=cfg['ns'])
            lr = optree.tree_leaves(rep, none_is_leaf=False, namespace=cfg['ns'])
            if not same_objects(lr, [sentinel if x is None else x for x in lt]):
                ctx.violation('replace-nones', _key('replace-nones', dsl), case, f'{lr!r} vs {lt!r}')
    # law (c): flattening the predicate-leaves without the predicate gives the predicate-free leaves
    if pred is not None:
        plain = optree.tree_leaves(tree, none_is_leaf=cfg['nil'], namespace=cfg['ns'])
        again = []
        for x in leaves:
            again.extend(optree.tree_leaves(x, none_is_leaf=cfg['nil'], namespace=cfg['ns']))
        if not same_objects(again, plain):
            ctx.violation('predicate-law', _key('predicate-law', dsl), case, f'{again!r} vs {plain!r}')


def builtin_instances_sweep(ctx):
    """Instances of the interpreter's own struct-sequence / namedtuple types that user code cannot construct with chosen
    leaves (sys.version_info, sys.flags, os.stat_result, time.struct_time, ...): each is a node visited by position, its
    children are the items of the tuple, through every traversal, alone and nested."""
    import os  # noqa: PLC0415
    import time  # noqa: PLC0415

    objs = {
        'sys.version_info': sys.version_info, 'sys.flags': sys.flags, 'sys.float_info': sys.float_info,
        'sys.int_info': sys.int_info, 'sys.hash_info': sys.hash_info, 'sys.thread_info': sys.thread_info,
        'sys.implementation.version': sys.implementation.version, 'time.gmtime': time.gmtime(0),
        'os.stat_result': os.stat('/'), 'os.times': os.times(), 'os.terminal_size': os.terminal_size((3, 4)),
        'os.uname': os.uname(), 'time.get_clock_info': None,
    }
    for name, obj in objs.items():
        if obj is None:
            continue
        for nil in (False, True):
            for ns in ('', 'ns'):
                ctx.count()
                ctx.cls(('builtin-instance', name, nil, ns))
                kw = {'none_is_leaf': nil, 'namespace': ns}
                want = list(obj)
                if not nil:
                    want = [x for x in want if x is not None]
                is_ss = optree.is_structseq(obj)
                is_nt = optree.is_namedtuple(obj)
                for label, tree, expect in (('alone', obj, want), ('nested', [obj, {'k': obj}], want + want)):
                    views = {
                        'tree_leaves': lambda tree=tree: optree.tree_leaves(tree, **kw),
                        'tree_flatten': lambda tree=tree: optree.tree_flatten(tree, **kw)[0],
                        'tree_iter': lambda tree=tree: list(optree.tree_iter(tree, **kw)),
                        'tree_flatten_with_path': lambda tree=tree: optree.tree_flatten_with_path(tree, **kw)[1],
                        'tree_flatten_with_accessor': lambda tree=tree: optree.tree_flatten_with_accessor(tree, **kw)[1],
                    }
                    for vname, fn in views.items():
                        got = outcome_of(fn)
                        if got[0] != 'ok' or len(got[1]) != len(expect) or any(a is not b for a, b in zip(got[1], expect)):
                            ctx.violation('builtin-instance', f'{PROP}:builtin-structseq-instance-not-a-node',
                                          {'builtin_instance': name, 'nil': nil, 'ns': ns, 'where': label},
                                          f'{vname}({label} {name}): {got!r}, items {expect!r} (is_structseq={is_ss}, is_namedtuple={is_nt})'[:500])
                kind = optree.tree_structure(obj, **kw).kind.name
                if kind not in ('STRUCTSEQUENCE', 'NAMEDTUPLE') or optree.tree_is_leaf(obj, **kw):
                    ctx.violation('builtin-instance', f'{PROP}:builtin-structseq-instance-not-a-node',
                                  {'builtin_instance': name, 'nil': nil, 'ns': ns}, f'kind {kind}')
                ctx.outcome(f'builtin-instance:{kind}')


def run_shard(ctx):
    from mc.props.C12 import type_sweep  # noqa: PLC0415

    if ctx.shard == 0:
        builtin_instances_sweep(ctx)

    type_sweep(ctx, PROP)  # exact-type rule for ordinary builtin leaf types registered as custom nodes
    extra = (('aliasing', tuple(gen.aliasing_trees())), *((e1.core6_stratum(),) if ctx.tier == 'thorough' else ()))
    e1.drive(ctx, ctx.tier, lambda tree, leaves, dsl, cfg: check(ctx, tree, leaves, dsl, cfg), extra_strata=extra)


def replay(case, ctx):
    c = case['case']
    if 'builtin_instance' in c:
        return builtin_instances_sweep(ctx)
    if 'tree' not in c:
        from mc.props.C12 import type_sweep  # noqa: PLC0415

        return type_sweep(ctx, PROP)
    e1.replay_case(case['case'], lambda tree, leaves, dsl, cfg: check(ctx, tree, leaves, dsl, cfg))
