"""C03  All traversal entry points agree with each other (E1 + malformed nodes + depth limit)."""

from __future__ import annotations

import functools
import sys
from collections import OrderedDict, defaultdict, deque

import optree

from mc import e1, gen
from mc import universe as un
from mc.e1 import outcome_of
from mc.oracle import same_objects

PROP = 'C03'

ENTRY_POINTS = {
    'flatten': lambda t, kw: optree.tree_flatten(t, **kw),
    'with_path': lambda t, kw: optree.tree_flatten_with_path(t, **kw),
    'with_accessor': lambda t, kw: optree.tree_flatten_with_accessor(t, **kw),
    'leaves': lambda t, kw: optree.tree_leaves(t, **kw),
    'iter': lambda t, kw: list(optree.tree_iter(t, **kw)),
    'structure': lambda t, kw: optree.tree_structure(t, **kw),
    'paths': lambda t, kw: optree.tree_paths(t, **kw),
    'accessors': lambda t, kw: optree.tree_accessors(t, **kw),
}


def agree(ctx, tree, kw, case, keyf, flat=None):  # noqa: C901, PLR0912
    """All-pairs agreement of the eight entry points on one (tree, options)."""
    res = {name: outcome_of(lambda f=f: f(tree, kw)) for name, f in ENTRY_POINTS.items()}
    kinds = {name: (r[0] if r[0] == 'ok' else r) for name, r in res.items()}
    if len(set(kinds.values())) != 1:
        ctx.violation('exception-parity', keyf('exception-parity'), case,
                      {n: (k if k != 'ok' else 'ok') for n, k in kinds.items()})
        return None
    if res['flatten'][0] == 'exc':
        ctx.outcome('raises:' + res['flatten'][1])
        return None
    leaves, spec = res['flatten'][1]
    p_paths, p_leaves, p_spec = res['with_path'][1]
    a_accs, a_leaves, a_spec = res['with_accessor'][1]
    for name, ls in (('with_path', p_leaves), ('with_accessor', a_leaves), ('leaves', res['leaves'][1]),
                     ('iter', res['iter'][1])):
        if not same_objects(ls, leaves):
            ctx.violation(f'leaves:{name}', keyf('leaves-agree'), case, f'{name}: {ls!r} vs flatten {leaves!r}')
    for name, sp in (('with_path', p_spec), ('with_accessor', a_spec), ('structure', res['structure'][1])):
        if not (sp == spec) or sp != spec or hash(sp) != hash(spec) or repr(sp) != repr(spec):
            ctx.violation(f'spec:{name}', keyf('spec-agree'), case, f'{name}: {sp!r} vs flatten {spec!r}')
    sp_paths = spec.paths()
    for name, ps in (('tree_paths', res['paths'][1]), ('spec.paths', sp_paths),
                     ('treespec_paths', optree.treespec_paths(spec))):
        if ps != p_paths:
            ctx.violation(f'paths:{name}', keyf('paths-agree'), case, f'{name}: {ps!r} vs with_path {p_paths!r}')
    sp_accs = spec.accessors()
    for name, acs in (('tree_accessors', res['accessors'][1]), ('spec.accessors', sp_accs)):
        if acs != a_accs or [hash(a) for a in acs] != [hash(a) for a in a_accs]:
            ctx.violation(f'accessors:{name}', keyf('accessors-agree'), case, f'{name}: {acs!r} vs {a_accs!r}')
    if [a.path for a in a_accs] != p_paths:
        ctx.violation('accessor-paths', keyf('accessor-paths'), case, f'{a_accs!r} vs {p_paths!r}')
    n = spec.num_leaves
    if not (len(leaves) == len(p_paths) == len(a_accs) == n == len(sp_paths) == len(sp_accs)):
        ctx.violation('counts', keyf('counts'), case,
                      f'{len(leaves)} {len(p_paths)} {len(a_accs)} {n}')
    return leaves, spec


def check(ctx, tree, leaves0, dsl, cfg):  # noqa: C901
    U, R = e1.universe()
    kw = e1.kw_of(cfg)
    case = {'tree': dsl, 'cfg': cfg}
    keyf = lambda o: f'{PROP}:{o}'  # noqa: E731
    ctx.count()
    flat = e1.ref_flatten(tree, cfg)
    if e1.nontrivial(flat.desc):
        ctx.cls(e1.class_key(flat, cfg))
    out = agree(ctx, tree, kw, case, keyf)
    if out is None:
        return
    leaves, spec = out
    ctx.outcome(f'ok:leaves={len(leaves)}')
    # leaf tests, on the root, every internal node and every leaf the reference found
    pred = un.PREDICATES[cfg['pred']]
    for o in [tree, *flat.internal_post[:6], *flat.leaves[:6]]:
        ls, sp = optree.tree_flatten(o, **kw)
        want = len(ls) == 1 and ls[0] is o and sp.is_leaf()
        got = optree.tree_is_leaf(o, **kw)
        ref_leaf = R.classify(o, cfg['nil'], cfg['ns'], pred)[0] == 'leaf'
        if got != want or got != ref_leaf:
            ctx.violation('tree_is_leaf', keyf('tree_is_leaf'), case, f'{o!r}: is_leaf={got} flatten-says={want} ref={ref_leaf}')
    for xs in (leaves, [tree], [*leaves, tree], [tree, *leaves], (), flat.internal_post[:3]):
        got = optree.all_leaves(xs, **kw)
        want = all(optree.tree_is_leaf(x, **kw) for x in xs)
        if got != want:
            ctx.violation('all_leaves', keyf('all_leaves'), case, f'{xs!r}: {got} vs {want}')
    # folds
    ls = leaves
    folds = {
        'reduce': (lambda: optree.tree_reduce(lambda a, x: (*a, id(x)), tree, (), **kw),
                   lambda: functools.reduce(lambda a, x: (*a, id(x)), ls, ())),
        'reduce-noinit': (lambda: optree.tree_reduce(lambda a, x: (a, x), tree, **kw),
                          lambda: functools.reduce(lambda a, x: (a, x), ls)),
        'sum': (lambda: optree.tree_sum(tree, (), **kw), lambda: sum(ls, ())),
        'max': (lambda: optree.tree_max(tree, key=id, **kw), lambda: max(ls, key=id)),
        'min': (lambda: optree.tree_min(tree, key=id, **kw), lambda: min(ls, key=id)),
        'max-default': (lambda: optree.tree_max(tree, key=id, default=None, **kw), lambda: max(ls, key=id, default=None)),
        'min-default': (lambda: optree.tree_min(tree, key=id, default=None, **kw), lambda: min(ls, key=id, default=None)),
        'all': (lambda: optree.tree_all(tree, **kw), lambda: all(ls)),
        'any': (lambda: optree.tree_any(tree, **kw), lambda: any(ls)),
    }
    for name, (got_f, want_f) in folds.items():
        got, want = outcome_of(got_f), outcome_of(want_f)
        same = got == want if got[0] == 'exc' or want[0] == 'exc' else _same_value(got[1], want[1])
        if not same:
            ctx.violation(f'fold:{name}', keyf('fold'), case, f'{name}: {got!r} vs {want!r}')


def _same_value(a, b):
    if a is b:
        return True
    try:
        return type(a) is type(b) and a == b
    except Exception:  # noqa: BLE001
        return False


# ---- malformed custom nodes ----------------------------------------------------------------------
def malformed_cases():
    out = []
    for mode in un.CM_MODES:
        for arity in (0, 1, 2):
            for shape in ('root', 'nested', 'nested-last'):
                out.append({'mode': mode, 'arity': arity, 'shape': shape})
    return out


def build_malformed(c):
    kids = [un.Leaf(i) for i in range(c['arity'])]
    cm = un.CM(kids, c['mode'])
    if c['shape'] == 'root':
        return cm
    if c['shape'] == 'nested':
        return (un.Leaf(10), cm, [un.Leaf(11)])
    return {'a': un.Leaf(10), 'z': cm}


def check_malformed(ctx, c):
    tree = build_malformed(c)
    for nil in (False, True):
        for ns in ('ns', ''):
            for pname in ('none', 'is_tuple'):
                kw = {'is_leaf': un.PREDICATES[pname], 'none_is_leaf': nil, 'namespace': ns}
                case = {'malformed': c, 'cfg': {'nil': nil, 'ns': ns, 'pred': pname, 'mode': 'sorted'}}
                ctx.count()
                ctx.cls(('malformed', c['mode'], c['arity'], c['shape'], nil, ns, pname))
                keyf = lambda o: f'{PROP}:malformed:{o}'  # noqa: E731
                agree(ctx, tree, kw, case, keyf)


# ---- depth limit ------------------------------------------------------------------------------------
CHAIN_KINDS = ('list', 'tuple', 'dict', 'odict', 'ddict', 'deque', 'nt1', 'ss', 'cg', 'cn', 'mixed')


def chain(kind, depth, with_leaf):
    """`depth` nested single-child containers; innermost holds a Leaf (leaf depth = depth) or nothing."""
    inner = un.Leaf(0) if with_leaf else None
    cur = inner
    first = not with_leaf
    for i in range(depth):
        k = kind
        if kind == 'mixed':
            k = ('list', 'tuple', 'dict', 'deque', 'nt1', 'cg')[i % 6]
        empty = first
        first = False
        if k == 'list':
            cur = [] if empty else [cur]
        elif k == 'tuple':
            cur = () if empty else (cur,)
        elif k == 'dict':
            cur = {} if empty else {'k': cur}
        elif k == 'odict':
            cur = OrderedDict() if empty else OrderedDict(k=cur)
        elif k == 'ddict':
            cur = defaultdict(None) if empty else defaultdict(None, k=cur)
        elif k == 'deque':
            cur = deque() if empty else deque([cur])
        elif k == 'nt1':
            cur = un.NT0() if empty else un.NT1(cur)
        elif k == 'ss':
            cur = un.SS2((un.Leaf(1), un.Leaf(2))) if empty else un.SS2((cur, un.Leaf(1)))
        elif k == 'cg':
            cur = un.CG([]) if empty else un.CG([cur])
        elif k == 'cn':
            cur = un.CN([]) if empty else un.CN([cur])
    return cur


def depth_cases():
    lim = optree.MAX_RECURSION_DEPTH
    return [{'kind': k, 'depth': d, 'leaf': wl} for k in CHAIN_KINDS for d in (lim - 1, lim, lim + 1, lim + 2)
            for wl in (True, False)]


def _innermost(tree):
    """(deepest container, deepest object) of a single-child chain."""
    cur, parent = tree, None
    while True:
        nxt = None
        if isinstance(cur, (list, deque, tuple)) and len(cur):
            nxt = cur[0]
        elif isinstance(cur, dict) and cur:
            nxt = next(iter(cur.values()))
        elif isinstance(cur, (un.CG, un.CN)) and cur.children:
            nxt = cur.children[0]
        if nxt is None:
            return parent, cur
        parent, cur = cur, nxt


def check_depth(ctx, c):
    lim = optree.MAX_RECURSION_DEPTH
    tree = chain(c['kind'], c['depth'], c['leaf'])
    # node at depth d exists iff ...: with a leaf, deepest object has depth `depth`; without, depth-1
    deepest = c['depth'] if (c['leaf'] or c['kind'] == 'ss') else c['depth'] - 1  # innermost struct sequence holds two leaves
    inner_container, inner_obj = _innermost(tree)
    preds = {
        'none': (None, deepest),
        # the predicate accepts exactly the deepest object: it is a leaf, but still sits at depth `deepest`
        'accept-deepest': ((lambda x: x is inner_obj), deepest),
        # the predicate accepts the innermost container: the traversal stops one level higher
        'accept-innermost-container': ((lambda x: x is inner_container), deepest - 1 if inner_container is not None and inner_obj is not inner_container and c['kind'] != 'ss' else deepest),
    }
    for nil in (False, True):
        for ns in ('ns', ''):
            if c['kind'] == 'cn' and ns == '':
                continue
            for pname, (pred, deep) in preds.items():
                if pname != 'none' and (nil or c['kind'] == 'ss'):
                    continue
                should_raise = deep > lim
                kw = {'is_leaf': pred, 'none_is_leaf': nil, 'namespace': ns}
                case = {'depth': c, 'cfg': {'nil': nil, 'ns': ns, 'pred': pname, 'mode': 'sorted'}}
                ctx.count()
                ctx.cls(('depth', c['kind'], c['depth'], c['leaf'], nil, ns, pname))
                for name, f in ENTRY_POINTS.items():
                    r = outcome_of(lambda f=f: f(tree, kw))
                    got = r if r[0] == 'exc' else 'ok'
                    want = ('exc', 'RecursionError') if should_raise else 'ok'
                    if got != want:
                        ctx.violation(f'depth-threshold:{name}', f'{PROP}:depth-threshold', case,
                                      f'{name} (predicate {pname}) deepest visited={deep} limit={lim}: {got} expected {want}')
                ctx.outcome('depth:' + ('raises' if should_raise else 'ok'))
    # break the chain iteratively so that deallocation does not recurse deeply
    _dismantle(tree)


def _dismantle(tree):
    cur = tree
    while True:
        nxt = None
        if isinstance(cur, (list, deque)) and cur:
            nxt = cur[0]
            cur.clear()
        elif isinstance(cur, dict) and cur:
            nxt = next(iter(cur.values()))
            cur.clear()
        elif isinstance(cur, (un.CG, un.CN)) and cur.children:
            nxt = cur.children[0]
            cur.children.clear()
        elif isinstance(cur, tuple) and cur:
            nxt = cur[0]
        if nxt is None:
            return
        cur = nxt


def numeric_folds(ctx):
    """Folds over trees of VALUES (not opaque leaves): tree_sum / tree_max / tree_min / tree_reduce must equal the Python
    builtin applied to tree_leaves exactly -- floats whose partial sums are inexact, big ints, Fractions, Decimals, strings,
    bools, mixed int/float."""
    import operator  # noqa: PLC0415
    from decimal import Decimal  # noqa: PLC0415
    from fractions import Fraction  # noqa: PLC0415

    value_sets = {
        'floats-inexact': [0.1, 0.2, 0.3], 'floats-cancel': [1e16, 1.0, -1e16], 'floats-many': [0.1] * 10,
        'ints-big': [2**70, -2**69, 7], 'fractions': [Fraction(1, 3), Fraction(1, 6), Fraction(1, 2)],
        'decimals': [Decimal('0.1'), Decimal('0.2'), Decimal('0.3')], 'bools': [True, False, True],
        'int-float': [1, 2.5, 3], 'float-nan': [1.0, float('inf'), -1.0], 'strs': ['b', 'a', 'c'],
        'single': [0.5], 'empty': [],
    }
    shapes = {
        'flat-list': lambda v: list(v), 'dict': lambda v: {f'k{len(v) - i}': x for i, x in enumerate(v)},
        'nested': lambda v: (v[:1], {'z': v[1:2], 'a': tuple(v[2:])}) if v else ((), {}),
    }
    for vname, vals in value_sets.items():
        for sname, mk in shapes.items():
            tree = mk(vals)
            ls = optree.tree_leaves(tree)
            ctx.count()
            ctx.cls(('numeric-fold', vname, sname))
            case = {'numeric_fold': vname, 'shape': sname}
            folds = {
                'sum': (lambda: optree.tree_sum(tree), lambda: sum(ls)),
                'sum-start': (lambda: optree.tree_sum(tree, 0.5), lambda: sum(ls, 0.5)),
                'reduce-add': (lambda: optree.tree_reduce(operator.add, tree, 0), lambda: functools.reduce(operator.add, ls, 0)),
                'reduce-add-noinit': (lambda: optree.tree_reduce(operator.add, tree), lambda: functools.reduce(operator.add, ls)),
                'max': (lambda: optree.tree_max(tree), lambda: max(ls)), 'min': (lambda: optree.tree_min(tree), lambda: min(ls)),
                'max-default': (lambda: optree.tree_max(tree, default=-1), lambda: max(ls, default=-1)),
                'min-key': (lambda: optree.tree_min(tree, key=lambda x: -x if not isinstance(x, str) else x),
                            lambda: min(ls, key=lambda x: -x if not isinstance(x, str) else x)),
                'all': (lambda: optree.tree_all(tree), lambda: all(ls)), 'any': (lambda: optree.tree_any(tree), lambda: any(ls)),
            }
            if vname == 'strs':
                folds = {k: v for k, v in folds.items() if k in ('max', 'min', 'min-key', 'all', 'any', 'reduce-add-noinit')}
                folds['sum-str'] = (lambda: optree.tree_sum(tree, ''), lambda: ''.join(ls))
            for fname, (got_f, want_f) in folds.items():
                got, want = outcome_of(got_f), outcome_of(want_f)
                same = got == want and (got[0] != 'ok' or type(got[1]) is type(want[1])) or (
                    got[0] == 'ok' == want[0] and got[1] != got[1] and want[1] != want[1])  # both NaN
                if not same:
                    ctx.violation(f'numeric-fold:{fname}', f'{PROP}:fold', case, f'{fname} over {ls!r}: {got!r} vs builtin {want!r}')
            ctx.outcome('numeric-fold')


def run_shard(ctx):
    sys.setrecursionlimit(20000)
    if ctx.shard == 0:
        numeric_folds(ctx)
    e1.drive(ctx, ctx.tier, lambda tree, leaves, dsl, cfg: check(ctx, tree, leaves, dsl, cfg),
             profile='small' if ctx.tier == 'quick' else 'full', extra_strata=(('aliasing', tuple(gen.aliasing_trees())),))
    for i, c in enumerate(malformed_cases()):
        if ctx.mine(i):
            check_malformed(ctx, c)
            if i < 3:
                ctx.sample({'malformed': c})
    for i, c in enumerate(depth_cases()):
        if ctx.mine(i):
            check_depth(ctx, c)
            if i < 2:
                ctx.sample({'depth': c})


def replay(case, ctx):
    sys.setrecursionlimit(20000)
    c = case['case']
    if 'numeric_fold' in c:
        numeric_folds(ctx)
    elif 'malformed' in c:
        check_malformed(ctx, c['malformed'])
    elif 'depth' in c:
        check_depth(ctx, c['depth'])
    else:
        e1.replay_case(c, lambda tree, leaves, dsl, cfg: check(ctx, tree, leaves, dsl, cfg))


_ = gen
