"""C04  Paths and accessors address exactly the leaves (E1)."""

from __future__ import annotations

import optree
from optree import accessor as acc_mod

from mc import e1, gen
from mc import universe as un
from mc.e1 import outcome_of

PROP = 'C04'


def expected_entry_class(kind, ntype, reg):
    if kind in ('tuple', 'list', 'deque'):
        return acc_mod.SequenceEntry
    if kind in ('dict', 'odict', 'ddict'):
        return acc_mod.MappingEntry
    if kind == 'namedtuple':
        return acc_mod.NamedTupleEntry
    if kind == 'structseq':
        return acc_mod.StructSequenceEntry
    if kind == 'custom':
        et = reg.entry_type
        if et is acc_mod.AutoEntry:
            # documented AutoEntry dispatch
            import dataclasses  # noqa: PLC0415
            from collections.abc import Mapping, Sequence  # noqa: PLC0415

            U, _ = e1.universe()
            if ntype in U.ss_types:
                return acc_mod.StructSequenceEntry
            if ntype in U.nt_types:
                return acc_mod.NamedTupleEntry
            if dataclasses.is_dataclass(ntype):
                return acc_mod.DataclassEntry
            if issubclass(ntype, Mapping):
                return acc_mod.MappingEntry
            if issubclass(ntype, Sequence):
                return acc_mod.SequenceEntry
            return acc_mod.FlattenedEntry
        return et
    raise AssertionError(kind)


REAL_CODE = (acc_mod.GetItemEntry, acc_mod.GetAttrEntry, un.CNEntry)


def literal_key(k):
    if k is None or type(k) in (int, str, float, bool):
        return True
    if type(k) is tuple:
        return all(literal_key(x) for x in k)
    return False


ENTRY_CLASSES = (acc_mod.PyTreeEntry, acc_mod.GetItemEntry, acc_mod.GetAttrEntry, acc_mod.FlattenedEntry,
                 acc_mod.SequenceEntry, acc_mod.MappingEntry, acc_mod.NamedTupleEntry, acc_mod.StructSequenceEntry,
                 acc_mod.DataclassEntry, un.CNEntry)
_SEEN_ENTRIES = set()


def entry_eq_hash(ctx, e, case, keyf):
    """== / hash consistency of path entries across entry classes: the same (entry, type, kind) wrapped in
    every entry class; whenever two of them compare equal their hashes must be equal (and == symmetric)."""
    try:
        sig = (type(e), e.entry, e.type, e.kind)
        if sig in _SEEN_ENTRIES:
            return
        _SEEN_ENTRIES.add(sig)
    except TypeError:
        return
    clones = []
    for cls in ENTRY_CLASSES:
        try:
            clones.append(cls(e.entry, e.type, e.kind))
        except Exception:  # noqa: BLE001
            continue
    clones.append(e)
    for a in clones:
        for b in clones:
            ctx.extra['entry-pairs'] += 1
            try:
                eq, eq2 = (a == b), (b == a)
                if eq != eq2 or (a != b) == eq:
                    ctx.violation('entry-eq-symmetry', keyf('entry-eq-hash'), case, f'{a!r} vs {b!r}')
                elif eq and hash(a) != hash(b):
                    ctx.violation('entry-eq-hash', keyf('entry-eq-hash'), case,
                                  f'{type(a).__name__}{a!r} == {type(b).__name__}{b!r} but hashes differ')
                elif eq:
                    pa, pb = optree.PyTreeAccessor((a,)), optree.PyTreeAccessor((b,))
                    if pa == pb and hash(pa) != hash(pb):
                        ctx.violation('accessor-eq-hash', keyf('entry-eq-hash'), case, f'{pa!r} vs {pb!r}')
            except Exception as ex:  # noqa: BLE001
                ctx.violation('entry-eq-raises', keyf('entry-eq-hash'), case, f'{a!r} vs {b!r}: {ex!r}')


def check(ctx, tree, leaves0, dsl, cfg):  # noqa: C901, PLR0912
    U, _ = e1.universe()
    kw = e1.kw_of(cfg)
    case = {'tree': dsl, 'cfg': cfg}
    keyf = lambda o: f'{PROP}:{o}'  # noqa: E731
    ctx.count()
    flat = e1.ref_flatten(tree, cfg)
    if e1.nontrivial(flat.desc):
        ctx.cls(e1.class_key(flat, cfg))
    accessors, leaves, spec = optree.tree_flatten_with_accessor(tree, **kw)
    n = len(leaves)
    ctx.outcome(f'leaves={n},maxdepth={max((len(a) for a in accessors), default=0)}')
    if len(accessors) != n or n != len(flat.leaves):
        ctx.violation('count', keyf('count'), case, f'{len(accessors)} accessors, {n} leaves, ref {len(flat.leaves)}')
        return
    for i, a in enumerate(accessors):
        try:
            got = a(tree)
        except Exception as ex:  # noqa: BLE001
            ctx.violation('accessor-call-raises', keyf('accessor-call-raises'), case, f'{a!r}: {ex!r}')
            continue
        if got is not leaves[i] or got is not flat.leaves[i]:
            ctx.violation('accessor-returns-leaf', keyf('accessor-returns-leaf'), case,
                          f'accessor {i} {a!r} -> {got!r}, leaf {leaves[i]!r}, ref {flat.leaves[i]!r}')
        if a.path != flat.paths[i]:
            ctx.violation('accessor-path', keyf('accessor-path'), case, f'{a.path!r} vs {flat.paths[i]!r}')
        typed = flat.typed[i]
        if len(typed) != len(a):
            ctx.violation('accessor-depth', keyf('accessor-depth'), case, f'{a!r} vs {typed!r}')
            continue
        for e, (entry, ntype, kind, reg) in zip(a, typed):
            entry_eq_hash(ctx, e, case, keyf)
            want_cls = expected_entry_class(kind, ntype, reg)
            ok = (type(e.entry) is type(entry) and e.entry == entry and e.type is ntype
                  and e.kind.name == e1.KIND_NAMES[kind] and type(e) is want_cls)
            if ok and kind == 'namedtuple':
                ok = e.field == U.nt_types[ntype][entry] and e.fields == U.nt_types[ntype]
            if ok and kind == 'structseq':
                ok = e.field == U.ss_types[ntype][entry]
            if ok and kind in ('dict', 'odict', 'ddict'):
                ok = e.key is e.entry
            if ok and kind in ('tuple', 'list', 'deque'):
                ok = e.index == entry
            if not ok:
                ctx.violation('typed-entry', keyf('typed-entry'), case,
                              f'{e!r} ({type(e).__name__}) vs entry={entry!r} type={ntype} kind={kind} class={want_cls.__name__}')
        # slicing / concatenation composes access
        for k in range(len(a) + 1):
            head, tail = a[:k], a[k:]
            if not (head + tail == a) or hash(head + tail) != hash(a) or type(head) is not type(a):
                ctx.violation('slice-concat', keyf('slice-concat'), case, f'{a!r} k={k}')
            elif tail(head(tree)) is not leaves[i]:
                ctx.violation('slice-compose', keyf('slice-compose'), case, f'{a!r} k={k}')
        # generated code
        if all(isinstance(e, REAL_CODE) and type(e) is not acc_mod.FlattenedEntry for e in a) and all(
            literal_key(e.entry) for e in a
        ):
            code = a.codify('t')
            try:
                val = eval(code, {'t': tree})  # noqa: S307
            except Exception as ex:  # noqa: BLE001
                ctx.violation('codify-eval-raises', keyf('codify'), case, f'{code}: {ex!r}')
            else:
                ctx.extra['codify-evaluated'] += 1
                if val is not leaves[i]:
                    ctx.violation('codify', keyf('codify'), case, f'{code} -> {val!r} vs {leaves[i]!r}')
    # paths distinct and prefix-free
    paths = [a.path for a in accessors]
    for i in range(n):
        for j in range(n):
            if i == j:
                continue
            pi, pj = paths[i], paths[j]
            if pi == pj or (len(pi) < len(pj) and pj[: len(pi)] == pi):
                ctx.violation('prefix-free', keyf('prefix-free'), case, f'{pi!r} vs {pj!r}')
            if (accessors[i] == accessors[j]) or not (accessors[i] != accessors[j]):
                ctx.violation('accessor-eq', keyf('accessor-eq'), case, f'{accessors[i]!r} == {accessors[j]!r}')
    # equality / hash consistency against independently recomputed accessors
    again = spec.accessors()
    for a, b in zip(accessors, again):
        if not (a == b) or hash(a) != hash(b) or a is b:
            ctx.violation('accessor-eq-hash', keyf('accessor-eq-hash'), case, f'{a!r} vs {b!r}')


def same_name_histories(ctx):
    """Entries must describe the class OBJECT they belong to, not its name: different node classes that share
    module + qualname (a factory calling namedtuple('Record', fields) with varying fields, two dataclasses or
    custom classes of one name) observed one after the other, in every order."""
    import itertools  # noqa: PLC0415
    from collections import namedtuple  # noqa: PLC0415

    from mc.universe import Leaf  # noqa: PLC0415

    field_sets = (('x', 'y'), ('y', 'x', 'z'), ('z',), ('a', 'x'))
    for order in itertools.permutations(range(len(field_sets)), 3):
        classes = [namedtuple('Record', field_sets[i]) for i in order]  # noqa: PYI024
        for rnd, cls in enumerate([*classes, classes[0]]):
            ctx.count()
            ctx.cls(('same-name', order, rnd))
            leaves = [Leaf(i) for i in range(len(cls._fields))]
            tree = [cls(*leaves), {'k': cls(*reversed(leaves))}]
            accs, lvs, spec = optree.tree_flatten_with_accessor(tree)
            case = {'same_name_history': [list(field_sets[i]) for i in order], 'round': rnd}
            for a, leaf in zip(accs, lvs):
                e = a[-1]
                want = cls._fields[e.entry]
                got = outcome_of(lambda e=e, a=a, leaf=leaf: (e.field, tuple(e.fields), a(tree) is leaf, want in repr(e)))
                r = outcome_of(lambda a=a: eval(a.codify('t'), {'t': tree}))  # noqa: S307
                if got != ('ok', (want, cls._fields, True, True)) or r[0] != 'ok' or r[1] is not leaf:
                    ctx.violation('same-name-class', f'{PROP}:entry-describes-class-by-name', case,
                                  f'class Record{cls._fields}, entry index {e.entry}: (field, fields, reaches leaf, repr) = '
                                  f'{got!r}; eval(codify) -> {r!r}; expected field {want!r}')
            ctx.outcome('same-name-history')
    # dataclasses of one name in two namespaces
    for rnd in range(3):
        ctx.count()
        made = []
        try:
            for fields in (('p', 'q'), ('q', 'r', 'p')):
                cls = optree.dataclasses.make_dataclass('Rec', list(fields), namespace=f'ns4-{len(made)}')
                made.append(cls)
                vals = [Leaf(i) for i in range(len(fields))]
                obj = cls(*vals)
                accs, lvs, _ = optree.tree_flatten_with_accessor([obj], namespace=f'ns4-{len(made) - 1}')
                for a, leaf, name in zip(accs, lvs, fields):
                    code = a.codify('t')
                    r = outcome_of(lambda code=code, obj=obj: eval(code, {'t': [obj]}))  # noqa: S307
                    if a[-1].name != name or a([obj]) is not leaf or r != ('ok', leaf):
                        ctx.violation('same-name-dataclass', f'{PROP}:entry-describes-class-by-name',
                                      {'same_name_dataclass': list(fields)}, f'{a!r} {code} -> {r!r}')
        finally:
            for i, cls in enumerate(made):
                try:
                    optree.unregister_pytree_node(cls, namespace=f'ns4-{i}')
                except Exception:  # noqa: BLE001
                    pass


def registration_forms(ctx):
    """Which entry class addresses the children of a class registered through the class decorator:
    {no TREE_PATH_ENTRY_TYPE, own, inherited} x attribute value x explicit path_entry_type= {None + 3 classes}
    x 3 call forms.  Expected: explicit argument, else class attribute, else AutoEntry -- and the accessors
    built with it reach the leaves (the class only supports the access style of the expected entry class)."""
    from optree.accessor import AutoEntry, GetAttrEntry, MappingEntry, SequenceEntry  # noqa: PLC0415

    from mc.universe import Leaf  # noqa: PLC0415

    styles = {'GetAttrEntry': GetAttrEntry, 'SequenceEntry': SequenceEntry, 'MappingEntry': MappingEntry}
    decls = [('absent', None)] + [(d, a) for d in ('own', 'inherited') for a in styles]
    n = 0
    for decl, attr in decls:
        for explicit in (None, *styles):
            for form in ('direct', 'kw-factory', 'positional-factory'):
                n += 1
                ns = f'ns4-form-{n}'
                want_name = explicit or attr or 'AutoEntry'
                want = styles.get(want_name, AutoEntry)

                class Base:
                    if decl == 'inherited':
                        TREE_PATH_ENTRY_TYPE = styles[attr]

                class Node(Base):
                    if decl == 'own':
                        TREE_PATH_ENTRY_TYPE = styles[attr]

                    def __init__(self, a, b):
                        object.__setattr__(self, '_v', {'a': a, 'b': b})

                    def __getattr__(self, name):
                        if want_name == 'GetAttrEntry' and name in ('a', 'b'):
                            return self._v[name]
                        raise AttributeError(name)

                    def __getitem__(self, k):
                        if want_name == 'SequenceEntry' and k in (0, 1):
                            return self._v['ab'[k]]
                        if want_name == 'MappingEntry' and k in ('a', 'b'):
                            return self._v[k]
                        raise KeyError(k)

                    def tree_flatten(self):
                        ents = (0, 1) if want_name == 'SequenceEntry' else ('a', 'b')
                        return (self._v['a'], self._v['b']), None, (None if want_name == 'AutoEntry' else ents)

                    @classmethod
                    def tree_unflatten(cls, metadata, children):
                        return cls(*children)

                kw = {} if explicit is None else {'path_entry_type': styles[explicit]}
                ctx.count()
                ctx.cls(('registration-form', decl, attr, explicit, form))
                case = {'registration_form': form, 'class_attribute': [decl, attr], 'explicit': explicit}
                try:
                    if form == 'direct':
                        r = optree.register_pytree_node_class(Node, namespace=ns, **kw)
                    elif form == 'kw-factory':
                        r = optree.register_pytree_node_class(namespace=ns, **kw)(Node)
                    else:
                        r = optree.register_pytree_node_class(ns, **kw)(Node)
                    leaves = [Leaf(1), Leaf(2)]
                    tree = [Node(*leaves)]
                    accs, lvs, _ = optree.tree_flatten_with_accessor(tree, namespace=ns)
                    got = [type(a[-1]).__name__ for a in accs]
                    reach = [outcome_of(lambda a=a: a(tree)) for a in accs]
                    reg = optree.register_pytree_node.get(Node, namespace=ns).path_entry_type
                    ok = r is Node and reg is want and all(x is y for x, y in zip(lvs, leaves))
                    if want is not AutoEntry:
                        ok = ok and got == [want_name] * 2 and all(
                            o[0] == 'ok' and o[1] is leaf for o, leaf in zip(reach, leaves))
                    if not ok:
                        ctx.violation('registration-form-entry-class', f'{PROP}:class-decorator:wrong-entry-class', case,
                                      f'expected entry class {want_name}; registry says {reg!r}; accessors use {got!r}; '
                                      f'accessor(tree) -> {reach!r}')
                    ctx.outcome(f'registration-form:{want_name}')
                finally:
                    try:
                        optree.unregister_pytree_node(Node, namespace=ns)
                    except Exception:  # noqa: BLE001
                        pass


def hand_registered_dataclasses(ctx):
    """Standard-library dataclasses registered by hand (function form), for every layout of up to 3 fields over
    {child, init=False non-child before / between / after children, keyword-only child} x entries {None, field names,
    indices} x entry class {AutoEntry (default), GetAttrEntry, DataclassEntry}: accessors reach the leaves, codify evaluates
    to them, DataclassEntry.field / .name name the right field."""
    import dataclasses as std  # noqa: PLC0415
    import itertools  # noqa: PLC0415

    from optree.accessor import AutoEntry, DataclassEntry, GetAttrEntry  # noqa: PLC0415

    from mc.universe import Leaf  # noqa: PLC0415

    n = 0
    for layout in itertools.chain.from_iterable(itertools.product(('child', 'noinit', 'kwchild'), repeat=k) for k in (1, 2, 3)):
        if not any(f != 'noinit' for f in layout):
            continue
        for entries_kind in ('none', 'names', 'indices'):
            for entry_cls_name in ('default', 'GetAttrEntry', 'DataclassEntry', 'AutoEntry'):
                if entry_cls_name == 'GetAttrEntry' and entries_kind != 'names':
                    continue
                n += 1
                if not ctx.mine(n):
                    continue
                ns = f'ns4-hand-{n}'
                names = [f'f{i}' for i in range(len(layout))]
                body = {'__annotations__': {nm: object for nm in names}}
                for nm, f in zip(names, layout):
                    if f == 'noinit':
                        body[nm] = std.field(init=False, default='static')
                    elif f == 'kwchild':
                        body[nm] = std.field(kw_only=True)
                cls = std.dataclass(type(f'HD{n}', (), body))
                child_names = [nm for nm, f in zip(names, layout) if f != 'noinit']
                # integer entries index the INIT fields (that is what DataclassEntry documents)
                init_names = [f.name for f in std.fields(cls) if f.init]

                def fl(o, child_names=child_names, init_names=init_names, entries_kind=entries_kind):
                    ents = None if entries_kind == 'none' else tuple(child_names) if entries_kind == 'names' else tuple(
                        init_names.index(c) for c in child_names)
                    return tuple(getattr(o, c) for c in child_names), None, ents

                def unfl(meta, ch, cls=cls, child_names=child_names):
                    return cls(**dict(zip(child_names, ch)))

                kw = {} if entry_cls_name == 'default' else {'path_entry_type': {'GetAttrEntry': GetAttrEntry, 'DataclassEntry': DataclassEntry, 'AutoEntry': AutoEntry}[entry_cls_name]}
                ctx.count()
                ctx.cls(('hand-dataclass', layout, entries_kind, entry_cls_name))
                case = {'hand_dataclass': list(layout), 'entries': entries_kind, 'entry_class': entry_cls_name}
                try:
                    optree.register_pytree_node(cls, fl, unfl, namespace=ns, **kw)
                    leaves = [Leaf(i) for i in range(len(child_names))]
                    obj = cls(**dict(zip(child_names, leaves)))
                    tree = [obj]
                    accs, lvs, _ = optree.tree_flatten_with_accessor(tree, namespace=ns)
                    problems = []
                    if len(lvs) != len(leaves) or any(a is not b for a, b in zip(lvs, leaves)):
                        problems.append(f'leaves {lvs!r}')
                    for a, leaf, cname in zip(accs, leaves, child_names):
                        e = a[-1]
                        r = outcome_of(lambda a=a: a(tree))
                        if r[0] != 'ok' or r[1] is not leaf:
                            problems.append(f'accessor {a!r} -> {r!r}, expected the leaf under field {cname}')
                        if isinstance(e, DataclassEntry):
                            nm = outcome_of(lambda e=e: (e.name, e.field))
                            if nm != ('ok', (cname, cname)):
                                problems.append(f'{e!r}: (name, field) = {nm!r}, expected {cname}')
                            code = a.codify('t')
                            ev = outcome_of(lambda code=code: eval(code, {'t': tree}))  # noqa: S307
                            if ev[0] != 'ok' or ev[1] is not leaf:
                                problems.append(f'codify {code} -> {ev!r}')
                    for p_ in problems:
                        ctx.violation('hand-registered-dataclass', f'{PROP}:hand-registered-dataclass', case, p_[:400])
                    ctx.outcome(f'hand-dataclass:{type(accs[0][-1]).__name__ if accs else "none"}')
                except Exception as ex:  # noqa: BLE001
                    ctx.violation('hand-registered-dataclass', f'{PROP}:hand-registered-dataclass', case, f'{type(ex).__name__}: {ex}'[:300])
                finally:
                    try:
                        optree.unregister_pytree_node(cls, namespace=ns)
                    except Exception:  # noqa: BLE001
                        pass


def run_shard(ctx):
    hand_registered_dataclasses(ctx)
    if ctx.shard == 0:
        same_name_histories(ctx)
    if ctx.shard == 1 % ctx.nshards:
        registration_forms(ctx)
    e1.drive(ctx, ctx.tier, lambda tree, leaves, dsl, cfg: check(ctx, tree, leaves, dsl, cfg),
             profile='small' if ctx.tier == 'quick' else 'full', extra_strata=(('aliasing', tuple(gen.aliasing_trees())),))


def replay(case, ctx):
    c = case['case']
    if 'hand_dataclass' in c:
        return hand_registered_dataclasses(ctx)
    if 'registration_form' in c:
        return registration_forms(ctx)  # the whole 84-case product is re-run (cheap); the case names the failing cell
    if 'same_name_history' in c or 'same_name_dataclass' in c:
        return same_name_histories(ctx)
    e1.replay_case(case['case'], lambda tree, leaves, dsl, cfg: check(ctx, tree, leaves, dsl, cfg))


_ = gen
