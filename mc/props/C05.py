"""C05  tree_map family calls the function once per leaf, in order, on aligned arguments (E1)."""

from __future__ import annotations

from collections import deque

import optree

from mc import e1, gen
from mc import universe as un
from mc.oracle import why_different
from mc.ref import STAR, Mismatch, ref_flatten_up_to, ref_unflatten

PROP = 'C05'
MAX_EDIT_NODES = {'quick': 3, 'thorough': 8}


def rest_menu(dsl, tier):
    """(label, rest DSL) candidates: copies, true suffixes, accepted variants and near misses."""
    out = [('same', dsl), ('suffix', gen.substitute_leaves(dsl, ['tuple', None, ['L', 'L']])),
           ('suffix-dict', gen.substitute_leaves(dsl, ['dict', {'keys': ['q', 'p']}, ['L', 'L']])),
           ('variant', gen.dict_variant(dsl))]
    n = 0
    for path in gen.node_paths(dsl):
        if gen.get_at(dsl, path) == 'L':
            continue
        n += 1
        if n > MAX_EDIT_NODES[tier]:
            break
        for label, new in gen.local_edits(dsl, path):
            out.append((f'edit@{"/".join(map(str, path))}:{label}', new))
    return out


class Recorder:
    def __init__(self):
        self.calls = []
        self.outs = []

    def __call__(self, *args):
        self.calls.append(args)
        o = un.Leaf(1000 + len(self.outs))
        self.outs.append(o)
        return o


def same_args(got, want):
    if len(got) != len(want):
        return False
    for g, w in zip(got, want):
        if len(g) != len(w):
            return False
        for a, b in zip(g, w):
            if a is b:
                continue
            if isinstance(a, (tuple, optree.PyTreeAccessor)) and type(a) is type(b) and a == b:
                continue  # paths / accessors are values
            return False
    return True


def check(ctx, tree, leaves0, dsl, cfg):  # noqa: C901, PLR0912, PLR0915
    U, R = e1.universe()
    kw = e1.kw_of(cfg)
    case = {'tree': dsl, 'cfg': cfg}
    keyf = lambda o: f'{PROP}:{o}'  # noqa: E731
    flat = e1.ref_flatten(tree, cfg)
    if e1.nontrivial(flat.desc):
        ctx.cls(e1.class_key(flat, cfg))
    n = len(flat.leaves)
    partial_child_leaf = any(t and t[-1][1] is U.P for t in flat.typed)
    if partial_child_leaf:
        # mapped values would be handed to functools.partial as args/keywords: not a valid program
        ctx.extra['skipped(partial-child-leaf)'] += 1
        return
    accessors = optree.tree_accessors(tree, **kw)
    # ---- rests -------------------------------------------------------------------------------
    menu = []
    for label, rdsl in rest_menu(dsl, ctx.tier):
        robj, _ = gen.build(rdsl, U)
        try:
            subs = ref_flatten_up_to(flat.desc, robj, U, flat.namespace)
        except Mismatch:
            subs = None
        menu.append((label, robj, subs))
    good = [m for m in menu if m[2] is not None]
    bad = [m for m in menu if m[2] is None]
    ctx.extra['rests-accepted'] += len(good)
    ctx.extra['rests-rejected'] += len(bad)
    combos = [[], good[:1], good[1:2], good[:2], good[:3], good[3:4]]
    for combo in combos:
        if any(not c for c in ([combo] if combo is None else [])):
            continue
        rests = [m[1] for m in combo]
        want_calls = [(flat.leaves[i], *(m[2][i] for m in combo)) for i in range(n)]
        for variant in ('map', 'map_', 'path', 'path_', 'acc', 'acc_'):
            ctx.count()
            f = Recorder()
            fn = {'map': optree.tree_map, 'map_': optree.tree_map_, 'path': optree.tree_map_with_path,
                  'path_': optree.tree_map_with_path_, 'acc': optree.tree_map_with_accessor,
                  'acc_': optree.tree_map_with_accessor_}[variant]
            try:
                res = fn(f, tree, *rests, **kw)
            except Exception as ex:  # noqa: BLE001
                ctx.violation(f'raises:{variant}', keyf('map-raises'), dict(case, rests=[m[0] for m in combo]), repr(ex))
                continue
            if variant.startswith('path'):
                want = [(flat.paths[i], *want_calls[i]) for i in range(n)]
            elif variant.startswith('acc'):
                want = [(accessors[i], *want_calls[i]) for i in range(n)]
            else:
                want = want_calls
            if not same_args(f.calls, want):
                ctx.violation(f'calls:{variant}', keyf('calls'), dict(case, rests=[m[0] for m in combo]),
                              f'got {f.calls!r}\nwant {want!r}')
                continue
            if variant.endswith('_'):
                if res is not tree:
                    ctx.violation(f'inplace-return:{variant}', keyf('inplace-return'), case, repr(res))
            else:
                expected = ref_unflatten(flat.desc, f.outs)
                why = why_different(expected, res, U)
                if why:
                    ctx.violation(f'result:{variant}', keyf('result'), dict(case, rests=[m[0] for m in combo]),
                                  f'{why}: got {res!r} want {expected!r}')
    ctx.outcome(f'leaves={n},good={len(good)},bad={len(bad)}')
    # ---- bad rests: ValueError before f is called at all -----------------------------------------
    for label, robj, _ in bad:
        for rests in ([robj], [good[0][1], robj] if good else None):
            if rests is None:
                continue
            for fn in (optree.tree_map, optree.tree_map_, optree.tree_map_with_path, optree.tree_map_with_accessor):
                ctx.count()
                f = Recorder()
                try:
                    res = fn(f, tree, *rests, **kw)
                except ValueError:
                    if f.calls:
                        ctx.violation('f-called-before-error', keyf('f-called-before-error'),
                                      dict(case, rest=label), f'{len(f.calls)} calls')
                except Exception as ex:  # noqa: BLE001
                    ctx.violation('bad-rest-wrong-exception', keyf('bad-rest-wrong-exception'),
                                  dict(case, rest=label), repr(ex))
                else:
                    ctx.violation('bad-rest-accepted', keyf('bad-rest-accepted'), dict(case, rest=label),
                                  f'{fn.__name__} accepted rest {robj!r} for tree {tree!r}: {res!r}')
    # ---- identity map: fresh containers, same leaves ---------------------------------------------------
    ctx.count()
    ident = optree.tree_map(lambda x: x, tree, **kw)
    why = why_different(tree, ident, U)
    if why:
        ctx.violation('identity-structure', keyf('identity-structure'), case, why)
    else:
        f2 = e1.ref_flatten(ident, cfg)
        if cfg['pred'] != 'leafbox' and len(f2.internal_post) == len(flat.internal_post):
            for a, b in zip(flat.internal_post, f2.internal_post):
                shared_ok = a is None or (type(a) is tuple and len(a) == 0) or (
                    type(a) in U.nt_types and len(a) == 0)
                if a is b and not shared_ok:
                    ctx.violation('identity-shares-container', keyf('identity-shares-container'), case,
                                  f'{type(a).__name__} node returned as the same object')
                    break
    # ---- functor law -------------------------------------------------------------------------------------
    if cfg['pred'] != 'leafbox':
        ctx.count()
        gmap, fmap = {}, {}

        def g(x):
            return gmap.setdefault(id(x), un.Leaf(2000 + len(gmap)))

        def f(x):
            return fmap.setdefault(id(x), un.Leaf(3000 + len(fmap)))

        lhs = optree.tree_map(lambda x: f(g(x)), tree, **kw)
        rhs = optree.tree_map(f, optree.tree_map(g, tree, **kw), **kw)
        why = why_different(lhs, rhs, U)
        if why:
            ctx.violation('functor-law', keyf('functor-law'), case, why)
    # ---- traverse / walk -------------------------------------------------------------------------------------
    spec = optree.tree_structure(tree, **kw)
    want_events = []

    def post(d):
        if d is STAR:
            want_events.append('leaf')
            return
        for c in d.children:
            post(c)
        want_events.append(('node', d.type, d.arity))

    post(flat.desc)
    forms = {'list': list, 'tuple': tuple, 'iterator': iter, 'generator': lambda xs: (x for x in xs),
             'deque': deque}
    for method, form in ((m, f) for m in ('traverse', 'walk') for f in forms):
        ctx.count()
        events = []
        leaf_seen = []

        def f_leaf(x):
            events.append('leaf')
            leaf_seen.append(x)
            return x

        if method == 'traverse':
            def f_node(node):
                t = type(node)
                arity = len(list(U.any_reg(t).flatten(node)[0])) if U.any_reg(t) else (0 if node is None else len(node))
                events.append(('node', t, arity))
                return node
        else:
            def f_node(t, data, children):
                events.append(('node', t, len(children)))
                return (t, data, children)
        try:
            out = getattr(spec, method)(forms[form](flat.leaves), f_node, f_leaf)  # leaves in every argument form
        except Exception as ex:  # noqa: BLE001
            ctx.violation(f'{method}-raises', keyf('traverse-raises'), case, f'leaves as {form}: {ex!r}')
            continue
        if events != want_events or len(leaf_seen) != n or any(a is not b for a, b in zip(leaf_seen, flat.leaves)):
            ctx.violation(f'{method}-order', keyf('traverse-order'), case, f'{events!r} vs {want_events!r}')
        if method == 'traverse':
            why = why_different(tree, out, U)
            if why:
                ctx.violation('traverse-result', keyf('traverse-result'), case, why)
            plain = spec.traverse(flat.leaves)
            if why_different(tree, plain, U):
                ctx.violation('traverse-noop-result', keyf('traverse-result'), case, repr(plain))


def run_shard(ctx):
    cfgs = None
    if ctx.tier == 'quick':
        cfgs = e1.configs('quick', predicates=['none', 'tuple_or_none', 'leafbox'])
    e1.drive(ctx, ctx.tier, lambda tree, leaves, dsl, cfg: check(ctx, tree, leaves, dsl, cfg),
             profile='tiny', cfgs=cfgs)


def replay(case, ctx):
    c = case['case']
    e1.replay_case({k: v for k, v in c.items() if k in ('tree', 'cfg')},
                   lambda tree, leaves, dsl, cfg: check(ctx, tree, leaves, dsl, cfg))
