"""C06  Treespec equality means same structure, and equal treespecs hash equally (E1 pairs)."""

from __future__ import annotations

import copy
import pickle
from collections import OrderedDict

import optree

from mc import e1, gen
from mc import universe as un
from mc.e1 import outcome_of
from mc.ref import STAR, ref_unflatten
from mc.props.C08 import one_level_desc

PROP = 'C06'


def members_for(tree, dsl, tier, U):  # noqa: C901
    """Family of (label, spec, eq_key, nil) built around one tree."""
    fam = []
    cfgs = e1.configs(tier, predicates=['none', 'tuple_or_none'] if tier == 'quick' else ['none', 'is_tuple', 'tuple_or_none'])
    by_mode = {}
    for c in cfgs:
        by_mode.setdefault(c['mode'], []).append(c)
    edits = []
    n = 0
    for path in gen.node_paths(dsl):
        if gen.get_at(dsl, path) == 'L':
            continue
        n += 1
        if n > 4:
            break
        edits.extend(gen.local_edits(dsl, path))
    edit_objs = [(lab, gen.build(d, U)[0]) for lab, d in edits]
    variant_obj = gen.build(gen.dict_variant(dsl), U)[0]
    for mode, cs in by_mode.items():
        with un.dict_mode(mode):
            for cfg in cs:
                kw = e1.kw_of(cfg)
                tag = f"{mode}/{cfg['nil']}/{cfg['ns']}/{cfg['pred']}"
                flat = e1.ref_flatten(tree, cfg)
                spec = optree.tree_structure(tree, **kw)
                key = flat.desc.eq_key()
                # 5th element: the namespace the REFERENCE says this treespec records (others: taken from the treespec)
                fam.append((f'flatten[{tag}]', spec, key, cfg['nil'], flat.namespace))
                if cfg['pred'] != 'none':
                    continue
                # construction routes of the same structure
                fam.append((f'pickle[{tag}]', pickle.loads(pickle.dumps(spec)), key, cfg['nil']))
                fam.append((f'copy[{tag}]', copy.copy(spec), key, cfg['nil']))
                fam.append((f'deepcopy[{tag}]', copy.deepcopy(spec), key, cfg['nil']))
                fam.append((f'transform-id[{tag}]', spec.transform(lambda s: s, lambda s: s), key, cfg['nil']))
                fam.append((f'compose-leaf[{tag}]',
                            spec.compose(optree.treespec_leaf(none_is_leaf=cfg['nil'])), key, cfg['nil']))
                fam.append((f'leaf-compose[{tag}]',
                            optree.treespec_leaf(none_is_leaf=cfg['nil']).compose(spec), key, cfg['nil']))
                fam.append((f'broadcast-self[{tag}]', spec.broadcast_to_common_suffix(spec), key, cfg['nil']))
                d = flat.desc
                if d is not STAR and d.type is not U.P:
                    coll = ref_unflatten(one_level_desc(d), spec.children())
                    r = outcome_of(lambda: optree.treespec_from_collection(
                        coll, none_is_leaf=cfg['nil'], namespace=cfg['ns']))
                    if r[0] == 'ok':
                        fam.append((f'from_collection[{tag}]', r[1], key, cfg['nil']))
                    # the kind's own constructor, fed with a container of ANOTHER class holding the same items in order
                    opt = {'none_is_leaf': cfg['nil'], 'namespace': cfg['ns']}
                    ctor = {
                        'dict': lambda: optree.treespec_dict(OrderedDict(coll.items()), **opt),
                        'odict': lambda: optree.treespec_ordereddict(list(coll.items()), **opt),
                        'ddict': lambda: optree.treespec_defaultdict(coll.default_factory, OrderedDict(coll.items()), **opt),
                        'tuple': lambda: optree.treespec_tuple(iter(spec.children()), **opt),
                        'list': lambda: optree.treespec_list(tuple(spec.children()), **opt),
                        'deque': lambda: optree.treespec_deque(list(spec.children()), maxlen=d.meta, **opt),
                    }.get(d.kind)
                    if ctor is not None:
                        r = outcome_of(ctor)
                        if r[0] == 'ok':
                            fam.append((f'constructor-other-argument-class[{tag}]', r[1], key, cfg['nil']))
                        else:
                            ctx.violation('constructor-raises', f'{PROP}:constructor-raises', {'tree': dsl, 'cfg': cfg}, repr(r))
                    it = iter(spec.children())
                    fam.append((f'one_level+children[{tag}]',
                                spec.one_level().transform(None, lambda _s: next(it)), key, cfg['nil']))
                # a fresh, separately built copy and the dict-variant twin
                t2, _ = gen.build(dsl, U)
                f2 = e1.ref_flatten(t2, cfg)
                fam.append((f'fresh-copy[{tag}]', optree.tree_structure(t2, **kw), f2.desc.eq_key(), cfg['nil']))
                fv = e1.ref_flatten(variant_obj, cfg)
                fam.append((f'dict-variant[{tag}]', optree.tree_structure(variant_obj, **kw), fv.desc.eq_key(), cfg['nil']))
                if cfg['mode'] == 'sorted' or cfg['ns'] == 'ns':
                    for lab, eo in edit_objs:
                        fe = e1.ref_flatten(eo, cfg)
                        fam.append((f'edit:{lab}[{tag}]', optree.tree_structure(eo, **kw), fe.desc.eq_key(), cfg['nil']))
    return fam


def ns_compatible(a, b):
    return not a or not b or a == b


def compare_family(ctx, fam, case_base, keyf):  # noqa: C901
    m = len(fam)
    hashes = [hash(f[1]) for f in fam]
    nss = [f[4] if len(f) > 4 else f[1].namespace for f in fam]
    for i in range(m):
        li, si, ki, ni = fam[i][:4]
        if len(fam[i]) > 4 and si.namespace != fam[i][4]:
            ctx.violation('recorded-namespace', keyf('recorded-namespace'), dict(case_base, a=li),
                          f'{si!r} records namespace {si.namespace!r}, reference {fam[i][4]!r}')
        if not (si == si) or si != si:
            ctx.violation('reflexive', keyf('reflexive'), dict(case_base, a=li), repr(si))
        for j in range(i + 1, m):
            lj, sj, kj, nj = fam[j][:4]
            ctx.count()
            want = ni == nj and ns_compatible(nss[i], nss[j]) and ki == kj
            eq_ij = si == sj
            if eq_ij != want:
                ctx.violation('eq-vs-reference', keyf('eq-vs-reference'), dict(case_base, a=li, b=lj),
                              f'{si!r} == {sj!r} is {eq_ij}, reference says {want}')
                continue
            if (sj == si) != eq_ij:
                ctx.violation('symmetric', keyf('symmetric'), dict(case_base, a=li, b=lj), f'{si!r} vs {sj!r}')
            if (si != sj) == eq_ij or (sj != si) == eq_ij:
                ctx.violation('ne-is-negation', keyf('ne-is-negation'), dict(case_base, a=li, b=lj), f'{si!r} vs {sj!r}')
            if eq_ij:
                ctx.extra['equal-pairs'] += 1
                if hashes[i] != hashes[j]:
                    key = keyf('hash-of-equal')
                    if nss[i] != nss[j]:
                        key = keyf('hash-of-equal:namespace-wildcard')
                    ctx.violation('hash-of-equal', key, dict(case_base, a=li, b=lj),
                                  f'{si!r} == {sj!r} but hash {hashes[i]} != {hashes[j]}')
                elif len({si, sj}) != 1 or {si: 1}.get(sj) != 1:
                    ctx.violation('set-dict-membership', keyf('set-dict-membership'), dict(case_base, a=li, b=lj), '')
            else:
                ctx.extra['unequal-pairs'] += 1


def check_tree(ctx, dsl, index):
    U, _ = e1.universe()
    tree, _ = gen.build(dsl, U)
    fam = members_for(tree, dsl, ctx.tier, U)
    case = {'tree': dsl}
    for _, s, k, nil, *_ in fam[:: max(1, len(fam) // 12)]:
        if k != '*':
            ctx.cls((e1._tk(k), nil, s.namespace))
    ctx.outcome(f'family={len(fam) // 10 * 10}')
    compare_family(ctx, fam, case, lambda o: f'{PROP}:{o}')


def square(ctx):
    """Full square over the core stratum: unrelated pairs (pred none, sorted mode)."""
    U, _ = e1.universe()
    trees = gen.core_trees(3)
    built = [gen.build(d, U)[0] for d in trees]
    for nil in (False, True):
        for ns in ('', 'ns'):
            cfg = {'nil': nil, 'ns': ns, 'pred': 'none', 'mode': 'sorted'}
            fam = []
            for d, t in zip(trees, built):
                flat = e1.ref_flatten(t, cfg)
                fam.append((gen.dsl_repr(d), optree.tree_structure(t, **e1.kw_of(cfg)), flat.desc.eq_key(), nil))
            rows = [i for i in range(len(fam)) if ctx.mine(i)]
            hashes = [hash(s) for _, s, _, _ in fam]
            for i in rows:
                li, si, ki, _ = fam[i]
                for j in range(len(fam)):
                    lj, sj, kj, _ = fam[j]
                    ctx.count()
                    want = ki == kj
                    if (si == sj) != want or (si != sj) == want:
                        ctx.violation('eq-vs-reference', f'{PROP}:eq-vs-reference',
                                      {'square': [li, lj], 'cfg': cfg}, f'{si!r} vs {sj!r}: want {want}')
                    elif want and hashes[i] != hashes[j]:
                        ctx.violation('hash-of-equal', f'{PROP}:hash-of-equal', {'square': [li, lj], 'cfg': cfg}, '')


class FlakyFactory:
    """default_factory whose __hash__ raises while armed (an unhashable-then-hashable metadata object)."""

    armed = False

    def __call__(self):
        return []

    def __eq__(self, other):
        return isinstance(other, FlakyFactory)

    def __hash__(self):
        if FlakyFactory.armed:
            raise RuntimeError('hash failed')
        return 11


def hash_after_failure(ctx):
    """a == b => hash(a) == hash(b) must survive a hash() call that raised: on the same treespec afterwards,
    and on new treespecs that re-use its address."""
    from collections import defaultdict  # noqa: PLC0415

    from mc.universe import Leaf  # noqa: PLC0415

    fac = FlakyFactory()
    for round_ in range(60):
        ctx.count()
        ctx.cls(('hash-after-failure', round_ % 5))
        t1 = [defaultdict(fac, {'k': Leaf(0)}), (Leaf(1), Leaf(2))][: 1 + round_ % 2]
        s1 = optree.tree_structure(t1)
        FlakyFactory.armed = True
        r = outcome_of(lambda: hash(s1))
        FlakyFactory.armed = False
        if r != ('exc', 'RuntimeError'):
            ctx.violation('hash-failure-not-propagated', f'{PROP}:hash-after-failure', {'round': round_}, repr(r))
        twin = optree.tree_structure(t1)
        if not (s1 == twin) or hash(s1) != hash(twin):
            ctx.violation('hash-after-failure', f'{PROP}:hash-after-failure', {'round': round_, 'which': 'same object'},
                          f'after a failed hash(): {s1!r} == twin but hash {hash(s1)} != {hash(twin)}')
        del s1, twin
        fresh = [optree.tree_structure((Leaf(3), [Leaf(4)] * (i % 3))) for i in range(12)]
        ref = [optree.tree_structure((Leaf(3), [Leaf(4)] * (i % 3))) for i in range(12)]
        for a, b in zip(fresh, ref):
            if a == b and hash(a) != hash(b):
                ctx.violation('hash-after-failure', f'{PROP}:hash-after-failure', {'round': round_, 'which': 'address reuse'},
                              f'{a!r} == {b!r} but hash {hash(a)} != {hash(b)}')
        ctx.outcome('hash-after-failure')


def run_shard(ctx):
    if ctx.shard == 0:
        hash_after_failure(ctx)
    idx = 0
    for name, trees in e1.strata(ctx.tier, 'tiny'):
        for dsl in trees:
            idx += 1
            if not ctx.mine(idx):
                continue
            ctx.checkpoint(idx, {'tree': dsl})
            ctx.extra[f'trees:{name}'] += 1
            check_tree(ctx, dsl, idx)
            if len(ctx.samples) < 2 and gen.dsl_size(dsl) > 3:
                ctx.sample({'tree': gen.dsl_repr(dsl), 'family': 'flatten under 36 configs + 10 construction routes + copies + dict variant + one-edit near misses'})
    square(ctx)


def replay(case, ctx):
    c = case['case']
    if 'tree' in c:
        check_tree(ctx, c['tree'], 0)
    else:
        square(ctx)
