"""C07  Prefix matching is exact and its three implementations agree (E1 pairs)."""

from __future__ import annotations

import optree

from mc import e1, gen
from mc import universe as un
from mc.e1 import outcome_of
from mc.props.C05 import rest_menu
from mc.ref import Mismatch, Ref, ref_flatten_up_to

PROP = 'C07'


def classify(oracle, pdsl, fdsl, detail=''):
    fp = gen.features(pdsl) | gen.features(fdsl)
    if oracle.startswith('is_prefix') and ('InternalError' in detail or oracle == 'is_prefix-vs-reference'):
        nested = _nested_dicts(pdsl) or _nested_dicts(fdsl)
        if nested:
            return f'{PROP}:is_prefix:nested-dict-reorder'
    if oracle.startswith('prefix_errors') and 'TypeError' in detail and ('keys:mixed' in fp or 'key:ukey' in fp or 'keys:unsortable' in fp):
        return f'{PROP}:prefix_errors:sorted-on-mixed-keys'
    return f'{PROP}:{oracle}'


def _nested_dicts(d, inside=False):
    if d == 'L':
        return False
    isd = d[0] in gen.DICT_KINDS
    if isd and inside:
        return True
    return any(_nested_dicts(c, inside or isd) for c in d[2])


def relations(a, b):
    """Every spelling of `a <= b` / `a < b` the API offers."""
    le = {
        'a.is_prefix(b)': a.is_prefix(b),
        'b.is_suffix(a)': b.is_suffix(a),
        'a<=b': a <= b,
        'b>=a': b >= a,
        'treespec_is_prefix': optree.treespec_is_prefix(a, b),
        'treespec_is_suffix': optree.treespec_is_suffix(b, a),
        'is_prefix(strict=False)': a.is_prefix(b, strict=False),
    }
    lt = {
        'a<b': a < b,
        'b>a': b > a,
        'a.is_prefix(b,strict)': a.is_prefix(b, strict=True),
        'b.is_suffix(a,strict)': b.is_suffix(a, strict=True),
        'treespec_is_prefix(strict)': optree.treespec_is_prefix(a, b, strict=True),
    }
    return le, lt


def check_pair(ctx, ptree, pdsl, pflat, pspec, flabel, fobj, fdsl, cfg):  # noqa: C901, PLR0912
    U, R = e1.universe()
    nil, ns = cfg['nil'], cfg['ns']
    pred = un.PREDICATES[cfg['pred']]
    case = {'tree': pdsl, 'cfg': cfg, 'full': fdsl, 'full_label': flabel}
    ctx.count()
    fflat = R.flatten(fobj, nil, ns, None, e1.S_of(cfg))
    try:
        want_subs = ref_flatten_up_to(pflat.desc, fobj, U, pflat.namespace)
    except Mismatch:
        want_subs = None
    want = want_subs is not None
    ref2 = Ref.is_prefix(pflat.desc, fflat.desc)
    if ref2 != want:
        ctx.violation('harness:reference-models-disagree', f'{PROP}:harness', case, f'{want} vs {ref2}')
        return
    ctx.outcome(f'prefix={want}')
    # 1. flatten_up_to
    r = outcome_of(lambda: pspec.flatten_up_to(fobj))
    if r[0] == 'exc':
        if r[1] != 'ValueError':
            ctx.violation('flatten_up_to-exception-type', classify('flatten_up_to-exception-type', pdsl, fdsl, r[1]), case, r[1])
        elif want:
            ctx.violation('flatten_up_to-rejects-prefix', classify('flatten_up_to-vs-reference', pdsl, fdsl), case,
                          f'{pspec!r} up to {fobj!r}')
    else:
        if not want:
            ctx.violation('flatten_up_to-accepts-non-prefix', classify('flatten_up_to-vs-reference', pdsl, fdsl), case,
                          f'{pspec!r} up to {fobj!r} -> {r[1]!r}')
        else:
            subs = r[1]
            if len(subs) != len(want_subs) or any(a is not b for a, b in zip(subs, want_subs)):
                ctx.violation('flatten_up_to-subtrees', classify('flatten_up_to-subtrees', pdsl, fdsl), case,
                              f'{subs!r} vs {want_subs!r}')
            else:
                parts = []
                for s in subs:
                    parts.extend(optree.tree_leaves(s, none_is_leaf=nil, namespace=ns))
                if sorted(map(id, parts)) != sorted(map(id, fflat.leaves)):
                    ctx.violation('flatten_up_to-partition', classify('flatten_up_to-partition', pdsl, fdsl), case,
                                  f'{parts!r} vs {fflat.leaves!r}')
    # 2. spec-vs-spec
    fspec = optree.tree_structure(fobj, none_is_leaf=nil, namespace=ns)
    r = outcome_of(lambda: relations(pspec, fspec))
    if r[0] == 'exc':
        ctx.violation('is_prefix-raises', classify('is_prefix-raises', pdsl, fdsl, r[1]), case,
                      f'{r[1]}: {pspec!r} vs {fspec!r}')
    else:
        le, lt = r[1]
        if set(le.values()) != {want}:
            ctx.violation('is_prefix-vs-reference', classify('is_prefix-vs-reference', pdsl, fdsl), case,
                          f'{le!r} reference {want}: {pspec!r} vs {fspec!r}')
        want_lt = Ref.strictly_smaller(pflat.desc, fflat.desc)
        if set(lt.values()) != {want_lt}:
            ctx.violation('strict-prefix', classify('strict-prefix', pdsl, fdsl), case,
                          f'{lt!r} reference {want_lt}: {pspec!r} vs {fspec!r}')
    # converse direction (full as prefix of the prefix tree's predicate-free structure)
    pspec0 = optree.tree_structure(ptree, none_is_leaf=nil, namespace=ns)
    pflat0 = R.flatten(ptree, nil, ns, None, e1.S_of(cfg))
    want_rev = Ref.is_prefix(fflat.desc, pflat0.desc)
    r = outcome_of(lambda: relations(fspec, pspec0))
    if r[0] == 'exc':
        ctx.violation('is_prefix-raises', classify('is_prefix-raises', fdsl, pdsl, r[1]), case, f'reverse {r[1]}')
    else:
        le, lt = r[1]
        if set(le.values()) != {want_rev}:
            ctx.violation('is_prefix-vs-reference', classify('is_prefix-vs-reference', fdsl, pdsl), case,
                          f'reverse {le!r} reference {want_rev}: {fspec!r} vs {pspec0!r}')
        # antisymmetry up to dict kind / order / maxlen
    # 3. prefix_errors
    r = outcome_of(lambda: optree.prefix_errors(ptree, fobj, is_leaf=pred, none_is_leaf=nil, namespace=ns))
    if r[0] == 'exc':
        ctx.violation('prefix_errors-raises', classify('prefix_errors-raises', pdsl, fdsl, r[1]), case,
                      f'{r[1]} for prefix {ptree!r} full {fobj!r}')
    else:
        errs = r[1]
        if (errs == []) != want:
            ctx.violation('prefix_errors-vs-reference', classify('prefix_errors-vs-reference', pdsl, fdsl), case,
                          f'{len(errs)} errors, reference prefix={want}: {ptree!r} vs {fobj!r}')
        for e in errs:
            ex = outcome_of(lambda e=e: e('in_axes'))
            if ex[0] != 'ok' or not isinstance(ex[1], ValueError):
                ctx.violation('prefix_errors-error-object', classify('prefix_errors-error-object', pdsl, fdsl), case, repr(ex))


def check(ctx, tree, leaves0, dsl, cfg):
    U, _ = e1.universe()
    kw = e1.kw_of(cfg)
    flat = e1.ref_flatten(tree, cfg)
    if e1.nontrivial(flat.desc):
        ctx.cls(e1.class_key(flat, cfg))
    spec = optree.tree_structure(tree, **kw)
    # reflexivity
    le, lt = relations(spec, spec)
    if set(le.values()) != {True} or set(lt.values()) != {False}:
        ctx.violation('reflexive', f'{PROP}:reflexive', {'tree': dsl, 'cfg': cfg}, f'{le} {lt}')
    menu = rest_menu(dsl, ctx.tier)
    built = [(lab, gen.build(d, U)[0], d) for lab, d in menu]
    for lab, fobj, fdsl in built:
        check_pair(ctx, tree, dsl, flat, spec, lab, fobj, fdsl, cfg)
    # transitivity on an enumerated chain: tree <= suffix <= suffix-of-suffix
    if cfg['pred'] == 'none':
        s1 = gen.substitute_leaves(dsl, ['tuple', None, ['L', 'L']])
        s2 = gen.substitute_leaves(s1, ['list', None, ['L']])
        o2 = gen.build(s2, U)[0]
        sp2 = optree.tree_structure(o2, none_is_leaf=cfg['nil'], namespace=cfg['ns'])
        ctx.count()
        if not (spec <= sp2) and not any(t and t[-1][1] is U.P for t in flat.typed):
            ctx.violation('transitive', f'{PROP}:transitive', {'tree': dsl, 'cfg': cfg}, f'{spec!r} vs {sp2!r}')


def square(ctx):
    U, R = e1.universe()
    trees = gen.core_trees(3)
    built = [gen.build(d, U)[0] for d in trees]
    for nil in (False, True):
        for ns in ('', 'ns'):
            cfg = {'nil': nil, 'ns': ns, 'pred': 'none', 'mode': 'sorted'}
            specs = [optree.tree_structure(t, none_is_leaf=nil, namespace=ns) for t in built]
            descs = [R.flatten(t, nil, ns, None, frozenset()).desc for t in built]
            for i in range(len(trees)):
                if not ctx.mine(i):
                    continue
                for j in range(len(trees)):
                    ctx.count()
                    want = Ref.is_prefix(descs[i], descs[j])
                    got = specs[i].is_prefix(specs[j])
                    got_lt = specs[i] < specs[j]
                    r = outcome_of(lambda i=i, j=j: specs[i].flatten_up_to(built[j]))
                    ok3 = (r[0] == 'ok') == want and (r[0] == 'ok' or r[1] == 'ValueError')
                    if got != want or got_lt != Ref.strictly_smaller(descs[i], descs[j]) or not ok3:
                        ctx.violation('square', f'{PROP}:is_prefix-vs-reference',
                                      {'square': [trees[i], trees[j]], 'cfg': cfg},
                                      f'{specs[i]!r} vs {specs[j]!r}: is_prefix={got} lt={got_lt} up_to={r[0]} want {want}')


def run_shard(ctx):
    preds = ['none', 'tuple_or_none', 'custom']
    modes = None
    e1.drive(ctx, ctx.tier, lambda tree, leaves, dsl, cfg: check(ctx, tree, leaves, dsl, cfg),
             profile='tiny', cfgs=e1.configs(ctx.tier, predicates=preds, modes=modes))
    square(ctx)


def replay(case, ctx):
    c = case['case']
    if 'square' in c:
        square(ctx)
        return
    U, _ = e1.universe()
    cfg = c['cfg']
    with un.dict_mode(cfg['mode']):
        tree, _ = gen.build(c['tree'], U)
        if 'full' in c:
            flat = e1.ref_flatten(tree, cfg)
            spec = optree.tree_structure(tree, **e1.kw_of(cfg))
            check_pair(ctx, tree, c['tree'], flat, spec, c.get('full_label', '?'),
                       gen.build(c['full'], U)[0], c['full'], cfg)
        else:
            check(ctx, tree, None, c['tree'], cfg)
