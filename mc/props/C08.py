"""C08  Treespec inspection, constructors, transform and compose are consistent (E1)."""

from __future__ import annotations

from collections import OrderedDict, defaultdict, deque

import optree

from mc import e1, gen
from mc import universe as un
from mc.e1 import outcome_of
from mc.ref import STAR, N, Ref, ref_unflatten

PROP = 'C08'

INNER_SHAPES = [
    'L',
    ['tuple', None, ['L', 'L']],
    ['list', None, ['L']],
    ['dict', {'keys': ['b', 'a']}, ['L', 'L']],
    ['none', None, []],
    ['cn', {'meta': 'm'}, ['L']],
    ['nt', None, ['L']],
    ['tuple', None, []],
]


def one_level_desc(d):
    return N(d.kind, d.type, d.meta, d.entries, [STAR] * d.arity, reg=d.reg, orig_keys=d.orig_keys)


def check(ctx, tree, leaves0, dsl, cfg):  # noqa: C901, PLR0912, PLR0915
    U, R = e1.universe()
    kw = e1.kw_of(cfg)
    case = {'tree': dsl, 'cfg': cfg}
    keyf = lambda o: f'{PROP}:{o}'  # noqa: E731
    ctx.count()
    flat = e1.ref_flatten(tree, cfg)
    d = flat.desc
    if e1.nontrivial(d):
        ctx.cls(e1.class_key(flat, cfg))
    spec = optree.tree_structure(tree, **kw)
    nil, ns = cfg['nil'], cfg['ns']
    n = d.arity
    ctx.outcome(f'root={d.kind},arity={n}')
    # 1. scalar inspection
    got = (spec.num_leaves, spec.num_nodes, spec.num_children, spec.kind.name, spec.type, spec.is_leaf(),
           spec.is_leaf(strict=False), spec.is_one_level(), len(spec), spec.none_is_leaf, spec.namespace,
           optree.treespec_is_leaf(spec), optree.treespec_is_leaf(spec, strict=False))
    want = (d.num_leaves, d.num_nodes, n, e1.KIND_NAMES[d.kind], d.type, d is STAR, d.num_nodes == 1,
            d.num_nodes == n + 1 and d.num_leaves == n and d is not STAR or (d is STAR and False), d.num_leaves, nil, flat.namespace,
            d is STAR, d.num_nodes == 1)
    if d is STAR:
        # is_one_level of a leaf spec: num_nodes(1) == num_children(0)+1 and num_leaves(1) == 0 -> False
        pass
    if got != want:
        ctx.violation('inspection', keyf('inspection'), case, f'{got!r} vs {want!r}')
    # whole-structure walk through children()/entries()
    why = e1.spec_vs_desc(spec, d)
    if why:
        ctx.violation('children-walk', keyf('children-walk'), case, why)
        return
    # 2. child / entry indexing with Python semantics
    children = spec.children()
    entries = spec.entries()
    if optree.treespec_children(spec) != children or optree.treespec_entries(spec) != entries:
        ctx.violation('ops-wrappers', keyf('ops-wrappers'), case, 'treespec_children/entries differ')
    # module-level twins of the inspection methods
    twins = {
        'treespec_is_one_level': (optree.treespec_is_one_level(spec), spec.is_one_level()),
        'treespec_is_strict_leaf': (optree.treespec_is_strict_leaf(spec), spec.is_leaf(strict=True)),
        'treespec_paths': (optree.treespec_paths(spec), spec.paths()),
        'treespec_accessors': (optree.treespec_accessors(spec), spec.accessors()),
        'treespec_one_level': (optree.treespec_one_level(spec), spec.one_level()),
        'treespec_is_prefix': (optree.treespec_is_prefix(spec, spec), spec.is_prefix(spec)),
        'treespec_is_suffix': (optree.treespec_is_suffix(spec, spec), spec.is_suffix(spec)),
        'treespec_is_prefix-strict': (optree.treespec_is_prefix(spec, spec, strict=True), spec.is_prefix(spec, strict=True)),
    }
    for name, (a, b) in twins.items():
        if a != b or type(a) is not type(b):
            ctx.violation('ops-wrappers', keyf('ops-wrappers'), case, f'{name}: {a!r} vs method {b!r}')
    if sum(c.num_leaves for c in children) != spec.num_leaves or sum(c.num_nodes for c in children) + 1 != spec.num_nodes:
        if d is not STAR:
            ctx.violation('children-sums', keyf('children-sums'), case, repr(spec))
    for i in range(-n - 2, n + 2):
        rc = outcome_of(lambda i=i: spec.child(i))
        re_ = outcome_of(lambda i=i: spec.entry(i))
        if -n <= i < n:
            ok = (rc[0] == 'ok' and rc[1] == children[i] and hash(rc[1]) == hash(children[i])
                  and repr(rc[1]) == repr(children[i]) and rc[1].namespace == children[i].namespace
                  and rc[1].none_is_leaf == children[i].none_is_leaf and rc[1].accessors() == children[i].accessors()
                  and optree.treespec_child(spec, i) == rc[1]
                  and re_[0] == 'ok' and type(re_[1]) is type(entries[i]) and re_[1] == entries[i]
                  and rc[1].paths() == children[i].paths())
        else:
            ok = rc == ('exc', 'IndexError') and re_ == ('exc', 'IndexError')
        if not ok:
            ctx.violation('index-semantics', keyf('index-semantics'), case, f'i={i} n={n}: child {rc!r} entry {re_!r}')
    for big in (2**62, -2**62, 2**63 - 1, -2**63):
        if outcome_of(lambda b=big: spec.child(b)) != ('exc', 'IndexError') or outcome_of(lambda b=big: spec.entry(b)) != ('exc', 'IndexError'):
            ctx.violation('index-huge', keyf('index-huge'), case, f'{big}')
    # 3. one_level + rebuilds
    one = spec.one_level()
    if d is STAR:
        if one is not None:
            ctx.violation('one_level-of-leaf', keyf('one_level'), case, repr(one))
    else:
        why = e1.spec_vs_desc(one, one_level_desc(d)) if one is not None else 'None'
        if why or not one.is_one_level():
            ctx.violation('one_level', keyf('one_level'), case, f'{one!r}: {why}')
        else:
            it = iter(children)
            rebuilt = one.transform(None, lambda leafspec: next(it))
            if (rebuilt != spec or hash(rebuilt) != hash(spec) or rebuilt.paths() != spec.paths()
                    or rebuilt.accessors() != spec.accessors() or repr(rebuilt) != repr(spec)):
                ctx.violation('rebuild-transform', keyf('rebuild-transform'), case, f'{rebuilt!r} vs {spec!r}')
            if d.type is U.P:
                # functools.partial demands a tuple / dict as children: a collection of treespecs
                # cannot be expressed for it
                ctx.extra['from_collection-skipped(partial)'] += 1
                coll = None
            else:
                coll = ref_unflatten(one_level_desc(d), list(children))
            with_ns = ('skip',) if coll is None else outcome_of(lambda: optree.treespec_from_collection(coll, none_is_leaf=nil, namespace=ns))
            if with_ns[0] == 'skip':
                pass
            elif with_ns[0] != 'ok' or with_ns[1] != spec or with_ns[1].paths() != spec.paths() or with_ns[1].accessors() != spec.accessors():
                ctx.violation('rebuild-from_collection', keyf('rebuild-from_collection'), case,
                              f'{with_ns!r} vs {spec!r} (collection {coll!r})')
            # every constructor in every argument form it documents (sequence / iterator / deque of children; mapping of any
            # dict class, pairs, pair iterator, keyword arguments) -- all order preserving, so each must give `spec` back
            k = d.kind
            ctors = []
            opt = {'none_is_leaf': nil, 'namespace': ns}
            seq_forms = (('list', list), ('tuple', tuple), ('iterator', iter), ('deque', deque),
                         ('generator', lambda xs: (x for x in xs)))
            if k == 'tuple':
                ctors = [(f, lambda mk=mk: optree.treespec_tuple(mk(children), **opt)) for f, mk in seq_forms]
            elif k == 'list':
                ctors = [(f, lambda mk=mk: optree.treespec_list(mk(children), **opt)) for f, mk in seq_forms]
            elif k == 'deque':
                ctors = [(f, lambda mk=mk: optree.treespec_deque(mk(children), maxlen=d.meta, **opt)) for f, mk in seq_forms]
            elif k in ('dict', 'odict', 'ddict'):
                items = list(coll.items())
                map_forms = [('same-class', lambda: coll), ('dict', lambda: dict(items)), ('OrderedDict', lambda: OrderedDict(items)),
                             ('defaultdict', lambda: defaultdict(list, items)), ('pairs', lambda: list(items)),
                             ('pair-iterator', lambda: iter(items)), ('zip', lambda: zip([a for a, _ in items], [b for _, b in items]))]
                if k == 'dict':
                    ctors = [(f, lambda mk=mk: optree.treespec_dict(mk(), **opt)) for f, mk in map_forms]
                    if items and all(type(a) is str and a.isidentifier() and a not in ('none_is_leaf', 'namespace') for a, _ in items):
                        ctors.append(('kwargs', lambda: optree.treespec_dict(**dict(items), **opt)))
                        ctors.append(('mapping+kwargs', lambda: optree.treespec_dict(OrderedDict(items[:1]), **dict(items[1:]), **opt)))
                elif k == 'odict':
                    ctors = [(f, lambda mk=mk: optree.treespec_ordereddict(mk(), **opt)) for f, mk in map_forms]
                else:
                    ctors = [(f, lambda mk=mk: optree.treespec_defaultdict(coll.default_factory, mk(), **opt)) for f, mk in map_forms]
            elif k == 'namedtuple':
                ctors = [('instance', lambda: optree.treespec_namedtuple(coll, **opt))]
            elif k == 'structseq':
                ctors = [('instance', lambda: optree.treespec_structseq(coll, **opt))]
            elif k == 'none':
                ctors = [('none', lambda: optree.treespec_none(**opt))]
            for form, ctor in ctors:
                ctx.extra['constructor-forms'] += 1
                r = outcome_of(ctor)
                if (r[0] != 'ok' or r[1] != spec or hash(r[1]) != hash(spec) or r[1].paths() != spec.paths()
                        or r[1].num_nodes != spec.num_nodes or r[1].type is not spec.type or r[1].kind != spec.kind):
                    ctx.violation(f'rebuild-ctor:{k}', keyf('rebuild-ctor'), {**case, 'form': form},
                                  f'argument form {form}: {r!r} vs {spec!r}')
    if d is STAR:
        lf = optree.treespec_leaf(none_is_leaf=nil, namespace=ns)
        if lf != spec or lf.paths() != spec.paths():
            ctx.violation('rebuild-ctor:leaf', keyf('rebuild-ctor'), case, repr(lf))
    # 4. transform
    t0 = spec.transform()
    t1 = spec.transform(lambda s: s, lambda s: s)
    t2 = optree.treespec_transform(spec, None, lambda s: s)
    for name, t in (('none', t0), ('identity', t1), ('leaf-identity', t2)):
        if t != spec or hash(t) != hash(spec) or repr(t) != repr(spec) or t.paths() != spec.paths():
            ctx.violation(f'transform-identity:{name}', keyf('transform-identity'), case, f'{t!r} vs {spec!r}')
    # node function is called exactly once per internal node with its one-level spec, leaves likewise
    seen = []
    spec.transform(lambda s: (seen.append(('n', s.num_children)), s)[1], lambda s: (seen.append('l'), s)[1])
    want_seen = []

    def post(x):
        if x is STAR:
            want_seen.append('l')
            return
        for c in x.children:
            post(c)
        want_seen.append(('n', x.arity))

    post(d)
    if seen != want_seen:
        ctx.violation('transform-visit-order', keyf('transform-visit-order'), case, f'{seen!r} vs {want_seen!r}')
    # 5. compose / transform-by-leaf-replacement, against the structure of the composed tree
    if cfg['pred'] != 'leafbox':
        for inner_dsl in INNER_SHAPES:
            inner_obj, _ = gen.build(inner_dsl, U)
            ispec = optree.tree_structure(inner_obj, **kw)
            iflat = e1.ref_flatten(inner_obj, cfg)
            if any(t and t[-1][1] is U.P for t in flat.typed):
                break  # a leaf directly under partial cannot be replaced by an arbitrary subtree
            ctx.count()
            r = outcome_of(lambda: spec.compose(ispec))
            if r[0] != 'ok':
                ctx.violation('compose-raises', keyf('compose-raises'), case, f'{r!r} inner {ispec!r}')
                continue
            comp = r[1]
            want_desc = Ref.compose(d, iflat.desc)
            why = e1.spec_vs_desc(comp, want_desc)
            if why or comp.num_leaves != spec.num_leaves * ispec.num_leaves:
                ctx.violation('compose-structure', keyf('compose-structure'), case, f'{why}; {comp!r}')
                continue
            composed_obj = ref_unflatten(d, [gen.build(inner_dsl, U)[0] for _ in range(d.num_leaves)])
            real = optree.tree_structure(composed_obj, **kw)
            if (real != comp or comp != real or hash(comp) != hash(real) or comp.paths() != real.paths()
                    or (comp.namespace == real.namespace and repr(comp) != repr(real))):
                ctx.violation('compose-vs-flatten', keyf('compose-vs-flatten'), case, f'{comp!r} vs {real!r}')
            viat = spec.transform(None, lambda _s, ispec=ispec: ispec)
            # (with no leaf to replace, transform never sees `ispec`, so only compose can pick up its namespace)
            strict = spec.num_leaves > 0
            if (viat != comp or viat.paths() != comp.paths() or hash(viat) != hash(comp) or viat.none_is_leaf != comp.none_is_leaf
                    or (strict and (viat.namespace != comp.namespace or repr(viat) != repr(comp)))):
                ctx.violation('transform-vs-compose', keyf('transform-vs-compose'), case, f'{viat!r} vs {comp!r}')
            else:
                # the transformed treespec is usable like the composed one: it matches the composed tree
                r9 = outcome_of(lambda: viat.flatten_up_to(composed_obj))
                r10 = outcome_of(lambda: comp.flatten_up_to(composed_obj))
                if r9[0] != r10[0] or (r9[0] == 'ok' and len(r9[1]) != len(r10[1])):
                    ctx.violation('transform-vs-compose', keyf('transform-vs-compose'), case,
                                  f'flatten_up_to through transform {r9!r} vs through compose {r10!r}'[:500])
    # 6. repr
    want_repr = Ref.spec_repr(d, nil, flat.namespace)
    if repr(spec) != want_repr or str(spec) != want_repr:
        ctx.violation('repr', keyf('repr'), case, f'{spec!r} vs {want_repr}')


class FlakyRepr:
    armed = False

    def __repr__(self):
        if FlakyRepr.armed:
            raise RuntimeError('repr failed')
        return 'FlakyRepr()'

    def __eq__(self, other):
        return isinstance(other, FlakyRepr)

    def __hash__(self):
        return 5


def repr_after_failure(ctx):
    """repr renders the documented notation also after a repr() call that raised: on the same treespec and
    on new treespecs that re-use its address."""
    from collections import defaultdict, deque  # noqa: PLC0415

    from mc.universe import Leaf  # noqa: PLC0415

    key = FlakyRepr()
    for round_ in range(60):
        ctx.count()
        ctx.cls(('repr-after-failure', round_ % 3))
        tree = [{key: Leaf(0)}, defaultdict(None, {key: Leaf(1)}), (un.CN([Leaf(2)], key),)][round_ % 3]
        ns = 'ns' if round_ % 3 == 2 else ''
        e1.universe()
        s1 = optree.tree_structure(tree, namespace=ns)
        good = repr(s1)
        FlakyRepr.armed = True
        r = outcome_of(lambda: repr(s1))
        FlakyRepr.armed = False
        if r != ('exc', 'RuntimeError'):
            ctx.violation('repr-failure-not-propagated', f'{PROP}:repr-after-failure', {'round': round_}, repr(r))
        if repr(s1) != good or str(s1) != good or 'FlakyRepr()' not in good:
            ctx.violation('repr-after-failure', f'{PROP}:repr-after-failure', {'round': round_, 'which': 'same object'},
                          f'after a failed repr(): {repr(s1)!r} vs {good!r}')
        del s1
        for i in range(12):
            s = optree.tree_structure((Leaf(3), deque([Leaf(4)] * (i % 3))))
            want = 'PyTreeSpec((*, deque([' + ', '.join(['*'] * (i % 3)) + '])))'
            if repr(s) != want:
                ctx.violation('repr-after-failure', f'{PROP}:repr-after-failure', {'round': round_, 'which': 'address reuse'},
                              f'{repr(s)!r} vs {want!r}')
        ctx.outcome('repr-after-failure')


def run_shard(ctx):
    if ctx.shard == 0:
        repr_after_failure(ctx)
    preds = ['none', 'tuple_or_none', 'custom', 'leafbox']
    e1.drive(ctx, ctx.tier, lambda tree, leaves, dsl, cfg: check(ctx, tree, leaves, dsl, cfg),
             profile='tiny' if ctx.tier == 'quick' else 'full', cfgs=e1.configs(ctx.tier, predicates=preds))


def replay(case, ctx):
    e1.replay_case(case['case'], lambda tree, leaves, dsl, cfg: check(ctx, tree, leaves, dsl, cfg))


_ = un
