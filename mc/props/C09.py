"""C09  Broadcasting replicates prefix leaves onto the matching positions (E1 pairs / triples)."""

from __future__ import annotations

import optree

from mc import e1, gen
from mc import universe as un
from mc.e1 import outcome_of
from mc.oracle import same_objects, why_different
from mc.props.C05 import Recorder, rest_menu, same_args
from mc.ref import DICT_KINDS, STAR, Mismatch, Ref, ref_flatten_up_to, ref_unflatten

PROP = 'C09'


def classify(oracle, detail, *dsls):
    if oracle in ('common-suffix-structure', 'broadcast-common-trees', 'broadcast-map-calls') and 'entries' in detail:
        feats = set()
        for d in dsls:
            feats |= gen.features(d)
        if feats & {'cn', 'cd', 'dc', 'partial', 'cs'}:
            return f'{PROP}:common-suffix:custom-entries-dropped'
    return f'{PROP}:{oracle}'


def replicate(small, big, leaves):
    """Leaves for `big` (in big's flatten order) when `small` is a prefix of `big` sharing its key
    order: each leaf of `big` is the `small` leaf whose path is a prefix."""
    it = iter(leaves)
    out = []

    def rec(s, b):
        if s is STAR:
            x = next(it)
            out.extend([x] * b.num_leaves)
            return
        if s.kind in DICT_KINDS:
            bmap = dict(zip(b.keys(), b.children))
            # order of `out` must follow big's order: collect per key then emit in big order
            per = {}
            for k, cs in zip(s.keys(), s.children):
                sub = []
                saved = out[:]
                del out[:]
                rec(cs, bmap[k])
                sub = out[:]
                del out[:]
                out.extend(saved)
                per[k] = sub
            for k in b.keys():
                out.extend(per[k])
            return
        for cs, cb in zip(s.children, b.children):
            rec(cs, cb)

    rec(small, big)
    return out


def menu_for(dsl, tier):
    menu = rest_menu(dsl, tier)
    leaves = [p for p in gen.node_paths(dsl) if gen.get_at(dsl, p) == 'L']
    if leaves:
        menu.append(('grow-first', gen.replace_at(dsl, leaves[0], ['tuple', None, ['L', 'L']])))
        menu.append(('grow-last', gen.replace_at(dsl, leaves[-1], ['list', None, ['L']])))
        menu.append(('grow-last-cn', gen.replace_at(dsl, leaves[-1], ['cn', {'meta': 'm'}, ['L', 'L']])))
    return menu


def check_prefix_broadcast(ctx, ptree, pdsl, pflat, flabel, fobj, fdsl, cfg):
    """tree_broadcast_prefix / broadcast_prefix."""
    U, R = e1.universe()
    kw = e1.kw_of(cfg)
    case = {'tree': pdsl, 'cfg': cfg, 'other': fdsl, 'other_label': flabel, 'op': 'prefix'}
    ctx.count()
    try:
        subs = ref_flatten_up_to(pflat.desc, fobj, U, pflat.namespace)
    except Mismatch:
        subs = None
    r1 = outcome_of(lambda: optree.tree_broadcast_prefix(ptree, fobj, **kw))
    r2 = outcome_of(lambda: optree.broadcast_prefix(ptree, fobj, **kw))
    if subs is None:
        for name, r in (('tree_broadcast_prefix', r1), ('broadcast_prefix', r2)):
            if r != ('exc', 'ValueError'):
                ctx.violation(f'{name}-non-prefix', classify('prefix-non-prefix', '', pdsl, fdsl), case, repr(r)[:500])
        ctx.outcome('prefix:rejected')
        return
    ctx.outcome('prefix:ok')
    if r1[0] != 'ok' or r2[0] != 'ok':
        ctx.violation('prefix-broadcast-raises', classify('prefix-broadcast-raises', '', pdsl, fdsl), case, f'{r1!r} {r2!r}'[:600])
        return
    want_leaves = []
    pieces = []
    for x, sub in zip(pflat.leaves, subs):
        sf = e1.ref_flatten(sub, cfg)
        want_leaves.extend([x] * sf.desc.num_leaves)
        pieces.append(ref_unflatten(sf.desc, [x] * sf.desc.num_leaves))
    want_tree = ref_unflatten(pflat.desc, pieces)
    why = why_different(want_tree, r1[1], U)
    if why:
        ctx.violation('tree_broadcast_prefix-result', classify('prefix-result', why, pdsl, fdsl), case,
                      f'{why}: got {r1[1]!r} want {want_tree!r}')
    if not same_objects(r2[1], want_leaves):
        ctx.violation('broadcast_prefix-leaves', classify('prefix-leaves', '', pdsl, fdsl), case,
                      f'{r2[1]!r} vs {want_leaves!r}')
    got_leaves = optree.tree_leaves(r1[1], **kw)
    if cfg['pred'] != 'leafbox' and not same_objects(got_leaves, r2[1]):
        ctx.violation('broadcast_prefix-vs-tree', classify('prefix-vs-tree', '', pdsl, fdsl), case,
                      f'{got_leaves!r} vs {r2[1]!r}')


def check_common(ctx, aobj, adsl, bobj, bdsl, label, cfg):  # noqa: C901, PLR0912
    """broadcast_to_common_suffix / tree_broadcast_common / broadcast_common on one ordered pair."""
    U, R = e1.universe()
    kw = e1.kw_of(cfg)
    case = {'tree': adsl, 'cfg': cfg, 'other': bdsl, 'other_label': label, 'op': 'common'}
    ctx.count()
    fa, fb = e1.ref_flatten(aobj, cfg), e1.ref_flatten(bobj, cfg)
    sa, sb = optree.tree_structure(aobj, **kw), optree.tree_structure(bobj, **kw)
    try:
        want = Ref.common_suffix(fa.desc, fb.desc)
    except ValueError:
        want = None
    r = outcome_of(lambda: sa.broadcast_to_common_suffix(sb))
    rt = outcome_of(lambda: optree.tree_broadcast_common(aobj, bobj, **kw))
    rl = outcome_of(lambda: optree.broadcast_common(aobj, bobj, **kw))
    if want is None:
        ctx.outcome('common:conflict')
        for name, x in (('broadcast_to_common_suffix', r), ('tree_broadcast_common', rt), ('broadcast_common', rl)):
            if x != ('exc', 'ValueError'):
                ctx.violation(f'{name}-conflict-not-ValueError', classify('common-conflict', '', adsl, bdsl), case, repr(x)[:500])
        return
    ctx.outcome('common:ok')
    if r[0] != 'ok' or rt[0] != 'ok' or rl[0] != 'ok':
        ctx.violation('common-raises', classify('common-raises', '', adsl, bdsl), case, f'{r!r} {rt!r} {rl!r}'[:700])
        return
    cs = r[1]
    why = e1.spec_vs_desc(cs, want)
    if why:
        ctx.violation('common-suffix-structure', classify('common-suffix-structure', why, adsl, bdsl), case,
                      f'{why}: {sa!r} + {sb!r} -> {cs!r}')
    else:
        want_paths = Ref.paths(want)
        if cs.paths() != want_paths or [a.path for a in cs.accessors()] != want_paths:
            ctx.violation('common-suffix-paths', classify('common-suffix-structure', 'entries', adsl, bdsl), case,
                          f'{cs.paths()!r} vs {want_paths!r}')
    # both operands are prefixes of it; idempotent; absorbs
    if not (sa <= cs and sb <= cs and sa.is_prefix(cs) and cs.is_suffix(sb)):
        ctx.violation('operands-are-prefixes', classify('operands-are-prefixes', '', adsl, bdsl), case, f'{sa!r} {sb!r} {cs!r}')
    again = cs.broadcast_to_common_suffix(cs)
    if again != cs or cs.broadcast_to_common_suffix(sa) != cs or cs.broadcast_to_common_suffix(sb) != cs:
        ctx.violation('idempotent', classify('idempotent', '', adsl, bdsl), case, f'{again!r} vs {cs!r}')
    if Ref.is_prefix(fa.desc, fb.desc):
        # a already a prefix of b: the result is b (with a's node kinds / key order where shared)
        if cs.num_nodes != sb.num_nodes or not (cs <= sb and sb <= cs):
            ctx.violation('absorbs', classify('absorbs', '', adsl, bdsl), case, f'{cs!r} vs {sb!r}')
    rev = outcome_of(lambda: sb.broadcast_to_common_suffix(sa))
    if rev[0] != 'ok' or not (rev[1] <= cs and cs <= rev[1]) or rev[1].num_leaves != cs.num_leaves:
        ctx.violation('symmetric', classify('symmetric', '', adsl, bdsl), case, f'{rev!r} vs {cs!r}')
    # tree-level: each output keeps its operand's structure kinds, leaves replicated
    want_b = Ref.common_suffix(fb.desc, fa.desc)
    exp_a = ref_unflatten(want, replicate(fa.desc, want, fa.leaves))
    exp_b = ref_unflatten(want_b, replicate(fb.desc, want_b, fb.leaves))
    ta, tb = rt[1]
    wa, wb = why_different(exp_a, ta, U), why_different(exp_b, tb, U)
    if wa or wb:
        ctx.violation('broadcast-common-trees', classify('broadcast-common-trees', str(wa or wb), adsl, bdsl), case,
                      f'{wa} / {wb}: got {ta!r}, {tb!r} want {exp_a!r}, {exp_b!r}')
    else:
        la = e1.ref_flatten(exp_a, cfg).leaves
        if cfg['pred'] != 'leafbox':
            try:
                lb = ref_flatten_up_to(e1.ref_flatten(exp_a, cfg).desc, exp_b, U, cfg['ns'])
            except Mismatch:
                lb = None
            if lb is not None and not (same_objects(rl[1][0], la) and same_objects(rl[1][1], lb)):
                ctx.violation('broadcast_common-leaves', classify('broadcast_common-leaves', '', adsl, bdsl), case,
                              f'{rl[1]!r} vs {la!r}, {lb!r}')


def check_map(ctx, objs, dsls, labels, cfg):
    """tree_broadcast_map over n trees == tree_map over the n trees broadcast to the common suffix."""
    U, R = e1.universe()
    kw = e1.kw_of(cfg)
    case = {'tree': dsls[0], 'cfg': cfg, 'others': dsls[1:], 'labels': labels, 'op': 'map'}
    ctx.count()
    flats = [e1.ref_flatten(o, cfg) for o in objs]
    try:
        alld = flats[0].desc
        for f in flats[1:]:
            alld = Ref.common_suffix(alld, f.desc)
        per = []
        for f in flats:
            d = f.desc
            for g in flats:
                d = Ref.common_suffix(d, g.desc)
            for g in flats:  # second pass, as least upper bound of all
                d = Ref.common_suffix(d, g.desc)
            per.append(ref_unflatten(d, replicate(f.desc, d, f.leaves)))
    except ValueError:
        per = None
    for variant, fn in (('map', optree.tree_broadcast_map), ('path', optree.tree_broadcast_map_with_path),
                        ('acc', optree.tree_broadcast_map_with_accessor)):
        f = Recorder()
        r = outcome_of(lambda fn=fn, f=f: fn(f, *objs, **kw))
        if per is None:
            if r != ('exc', 'ValueError'):
                ctx.violation('broadcast-map-conflict', classify('broadcast-map-conflict', '', *dsls), case, repr(r)[:400])
            continue
        if r[0] != 'ok':
            ctx.violation('broadcast-map-raises', classify('broadcast-map-raises', '', *dsls), case, repr(r))
            continue
        f0 = e1.ref_flatten(per[0], cfg)
        cols = [f0.leaves]
        try:
            for other in per[1:]:
                cols.append(ref_flatten_up_to(f0.desc, other, U, cfg['ns']))
        except Mismatch as ex:
            ctx.violation('harness:broadcast-reference', f'{PROP}:harness', case, repr(ex))
            return
        want = [tuple(c[i] for c in cols) for i in range(len(f0.leaves))]
        if variant == 'path':
            want = [(f0.paths[i], *w) for i, w in enumerate(want)]
        elif variant == 'acc':
            accs = optree.tree_accessors(per[0], **kw)
            want = [(accs[i], *w) for i, w in enumerate(want)]
        if not same_args(f.calls, want):
            detail = 'entries' if variant != 'map' and [c[1:] for c in f.calls] == [tuple(w[1:]) for w in want] else ''
            ctx.violation(f'broadcast-map-calls:{variant}', classify('broadcast-map-calls', detail, *dsls), case,
                          f'{f.calls!r} vs {want!r}')
            continue
        exp = ref_unflatten(f0.desc, f.outs)
        why = why_different(exp, r[1], U)
        if why:
            ctx.violation('broadcast-map-result', classify('broadcast-map-result', why, *dsls), case, why)
    ctx.outcome('map:' + ('ok' if per is not None else 'conflict'))


def check(ctx, tree, leaves0, dsl, cfg):
    U, _ = e1.universe()
    flat = e1.ref_flatten(tree, cfg)
    if e1.nontrivial(flat.desc):
        ctx.cls(e1.class_key(flat, cfg))
    if any(t and t[-1][1] is U.P for t in flat.typed):
        ctx.extra['skipped(partial-child-leaf)'] += 1
        return
    menu = menu_for(dsl, ctx.tier)
    built = {lab: (gen.build(d, U)[0], d) for lab, d in menu}
    # replicated values would be handed to functools.partial as its args tuple / keywords dict:
    # partners with a leaf directly under a partial node are not valid programs for these operations
    for lab in list(built):
        of = e1.ref_flatten(built[lab][0], cfg)
        if any(t and t[-1][1] is U.P for t in of.typed):
            del built[lab]
            ctx.extra['partner-skipped(partial-child-leaf)'] += 1
    for lab, (fobj, fdsl) in built.items():
        check_prefix_broadcast(ctx, tree, dsl, flat, lab, fobj, fdsl, cfg)
        check_common(ctx, tree, dsl, fobj, fdsl, lab, cfg)
        check_common(ctx, fobj, fdsl, tree, dsl, 'rev:' + lab, cfg)
    if all(k in built for k in ('grow-first', 'grow-last', 'variant')):
        a, ad = built['grow-first']
        for other in ('grow-last', 'grow-last-cn', 'variant', 'suffix'):
            if other not in built:
                continue
            b, bd = built[other]
            check_common(ctx, a, ad, b, bd, f'grow-first+{other}', cfg)
        # n-ary maps
        b, bd = built['grow-last']
        check_map(ctx, [tree], [dsl], [], cfg)
        check_map(ctx, [tree, a], [dsl, ad], ['grow-first'], cfg)
        check_map(ctx, [tree, a, b], [dsl, ad, bd], ['grow-first', 'grow-last'], cfg)
        check_map(ctx, [a, b, built['variant'][0]], [ad, bd, built['variant'][1]], ['grow-last', 'variant'], cfg)
        check_map(ctx, [b, tree, a], [bd, dsl, ad], ['tree', 'grow-first'], cfg)
        bad = [v for k, v in built.items() if k.startswith('edit@')][:2]
        for bobj, bdsl2 in bad:
            check_map(ctx, [tree, a, bobj], [dsl, ad, bdsl2], ['grow-first', 'edit'], cfg)


def run_shard(ctx):
    preds = ['none', 'tuple_or_none']
    modes = None
    nss = ['', 'ns'] if ctx.tier == 'quick' else None
    e1.drive(ctx, ctx.tier, lambda tree, leaves, dsl, cfg: check(ctx, tree, leaves, dsl, cfg),
             profile='medium', cfgs=e1.configs(ctx.tier, predicates=preds, modes=modes, namespaces=nss))


def replay(case, ctx):
    c = case['case']
    U, _ = e1.universe()
    cfg = c['cfg']
    with un.dict_mode(cfg['mode']):
        tree, _ = gen.build(c['tree'], U)
        if c.get('op') == 'prefix':
            check_prefix_broadcast(ctx, tree, c['tree'], e1.ref_flatten(tree, cfg), c['other_label'],
                                   gen.build(c['other'], U)[0], c['other'], cfg)
        elif c.get('op') == 'common':
            check_common(ctx, tree, c['tree'], gen.build(c['other'], U)[0], c['other'], c['other_label'], cfg)
        elif c.get('op') == 'map':
            objs = [tree] + [gen.build(d, U)[0] for d in c['others']]
            check_map(ctx, objs, [c['tree'], *c['others']], c['labels'], cfg)
        else:
            check(ctx, tree, None, c['tree'], cfg)
