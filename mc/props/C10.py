"""C10  Transposition swaps outer and inner structure without losing or moving values (E1 pairs)."""

from __future__ import annotations

import optree

from mc import e1, gen
from mc import universe as un
from mc.e1 import outcome_of
from mc.oracle import why_different
from mc.props.C05 import same_args
from mc.ref import Mismatch, ref_flatten_up_to, ref_unflatten

PROP = 'C10'

INNERS = [
    'L',
    ['tuple', None, ['L', 'L']],
    ['list', None, ['L', ['tuple', None, ['L', 'L']]]],
    ['dict', {'keys': ['b', 'a']}, ['L', 'L']],
    ['odict', {'keys': ['z', 'y']}, ['L', ['none', None, []]]],
    ['nt', None, ['L', 'L']],
    ['cn', {'meta': 'm'}, ['L', 'L']],
    ['deque', {'maxlen': 'len+1'}, ['L']],
    ['ddict', {'keys': [2, 'a'], 'factory': 'list'}, ['L', 'L']],
    ['cg', None, [['list', None, ['L']], 'L']],
    ['tuple', None, [['none', None, []], 'L']],
    ['dict', {'keys': ['v', 'aux']}, ['L', ['tuple', None, [['none', None, []], ['none', None, []]]]]],
    ['list', None, [['list', None, [['tuple', None, []]]], 'L']],
]
EMPTIES = [['tuple', None, []], ['none', None, []], ['dict', {'keys': []}, []], ['list', None, [['tuple', None, []]]]]


def check(ctx, otree, leaves0, odsl, cfg):  # noqa: C901, PLR0912, PLR0915
    U, _ = e1.universe()
    kw = e1.kw_of(cfg)
    oflat = e1.ref_flatten(otree, cfg)
    if e1.nontrivial(oflat.desc):
        ctx.cls(e1.class_key(oflat, cfg))
    if any(t and t[-1][1] is U.P for t in oflat.typed) or cfg['pred'] == 'leafbox':
        return
    ospec = optree.tree_structure(otree, **kw)
    m = oflat.desc.num_leaves
    for idsl in (INNERS if m > 0 else INNERS[:2]):
        case = {'tree': odsl, 'cfg': cfg, 'inner': idsl}
        iobj, _ = gen.build(idsl, U)
        iflat = e1.ref_flatten(iobj, cfg)
        ispec = optree.tree_structure(iobj, **kw)
        n = iflat.desc.num_leaves
        ctx.count()
        if m == 0 or n == 0:
            r = outcome_of(lambda: optree.tree_transpose(ospec, ispec, otree, is_leaf=kw['is_leaf']))
            if r != ('exc', 'ValueError'):
                ctx.violation('empty-structure', f'{PROP}:empty-structure', case, repr(r))
            ctx.outcome('empty')
            continue
        # composed tree with distinct leaves: grid[i][j]
        inners = []
        grid = []
        for _ in range(m):
            o, ls = gen.build(idsl, U)
            fl = e1.ref_flatten(o, cfg)
            inners.append(o)
            grid.append(fl.leaves)
        composed = ref_unflatten(oflat.desc, inners)
        r = outcome_of(lambda: optree.tree_transpose(ospec, ispec, composed, is_leaf=kw['is_leaf']))
        if r[0] != 'ok':
            ctx.violation('transpose-raises', f'{PROP}:transpose-raises', case, repr(r))
            continue
        want = ref_unflatten(iflat.desc, [ref_unflatten(oflat.desc, [grid[i][j] for i in range(m)]) for j in range(n)])
        why = why_different(want, r[1], U)
        if why:
            ctx.violation('transpose-result', f'{PROP}:transpose-result', case, f'{why}: {r[1]!r} vs {want!r}')
            continue
        ctx.outcome(f'ok:{min(m, 4)}x{min(n, 4)}')
        back = outcome_of(lambda: optree.tree_transpose(ispec, ospec, r[1], is_leaf=kw['is_leaf']))
        if back[0] != 'ok' or why_different(composed, back[1], U):
            ctx.violation('involution', f'{PROP}:involution', case, f'{back!r} vs {composed!r}')
        # error cases
        other_nil = optree.tree_structure(iobj, is_leaf=kw['is_leaf'], none_is_leaf=not cfg['nil'], namespace=cfg['ns'])
        r2 = outcome_of(lambda: optree.tree_transpose(ospec, other_nil, composed))
        if r2 != ('exc', 'ValueError'):
            ctx.violation('none_is_leaf-mismatch', f'{PROP}:none_is_leaf-mismatch', case, repr(r2))
        # wrong leaf count: one inner part (first / last) replaced by a list of k leaves, for every k != n up to 2n+1
        # (deficits, and surpluses both smaller and larger than one whole inner part)
        for pos in sorted({0, m - 1}):
            for k in range(2 * n + 2):
                if k == n:
                    continue
                parts = list(inners)
                parts[pos] = [un.Leaf(-1 - q) for q in range(k)]
                wrong = ref_unflatten(oflat.desc, parts)
                r3 = outcome_of(lambda: optree.tree_transpose(ospec, ispec, wrong, is_leaf=kw['is_leaf']))
                ctx.extra['wrong-count-cases'] += 1
                if e1.ref_flatten(wrong, cfg).desc.num_leaves == m * n:
                    ctx.extra['wrong-count-not-applicable'] += 1
                elif r3[0] != 'exc' or r3[1] not in ('ValueError', 'TypeError'):
                    ctx.violation('wrong-leaf-count', f'{PROP}:wrong-leaf-count', {**case, 'position': pos, 'k': k},
                                  f'{m}x{n} transposition given {m * n - n + k} leaves: {r3!r}')
        # ---- transpose_map ----------------------------------------------------------------------
        rest, _ = gen.build(odsl, U)
        rflat = e1.ref_flatten(rest, cfg)
        accs = optree.tree_accessors(otree, **kw)
        for variant, fn in (('map', optree.tree_transpose_map), ('path', optree.tree_transpose_map_with_path),
                            ('acc', optree.tree_transpose_map_with_accessor)):
            for given in (False, True):
                ctx.count()
                calls = []
                outs = []

                def f(*args):
                    calls.append(args)
                    o, _ = gen.build(idsl, U)
                    outs.append(e1.ref_flatten(o, cfg).leaves)
                    return o

                ikw = {'inner_treespec': ispec} if given else {}
                r4 = outcome_of(lambda fn=fn, f=f, ikw=ikw: fn(f, otree, rest, **ikw, **kw))
                want_calls = [(oflat.leaves[i], rflat.leaves[i]) for i in range(m)]
                if variant == 'path':
                    want_calls = [(oflat.paths[i], *c) for i, c in enumerate(want_calls)]
                elif variant == 'acc':
                    want_calls = [(accs[i], *c) for i, c in enumerate(want_calls)]
                if r4[0] != 'ok' or not same_args(calls, want_calls):
                    ctx.violation(f'transpose_map-calls:{variant}', f'{PROP}:transpose_map-calls', case,
                                  f'{r4!r}\n{calls!r} vs {want_calls!r}')
                    continue
                want4 = ref_unflatten(iflat.desc, [ref_unflatten(oflat.desc, [outs[i][j] for i in range(m)])
                                                  for j in range(n)])
                why = why_different(want4, r4[1], U)
                if why:
                    ctx.violation(f'transpose_map-result:{variant}', f'{PROP}:transpose_map-result', case,
                                  f'{why}: {r4[1]!r} vs {want4!r}')
        # varying inner shape -> ValueError (also when the difference sits inside a LEAFLESS part of the inner shape)
        if m >= 2:
            odd_dsls = [['list', None, ['L', 'L', 'L', ['tuple', None, ['L']]]]]
            for path in gen.node_paths(idsl):
                node = gen.get_at(idsl, path)
                if node != 'L' and node[0] in ('none', 'tuple', 'list') and not node[2] and path:
                    odd_dsls.append(gen.replace_at(idsl, path, 'L'))
                    odd_dsls.append(gen.replace_at(idsl, path, ['deque', {'maxlen': None}, []]))
                    break
            for odd_dsl in odd_dsls:
                k = [0]

                def g(x, odd_dsl=odd_dsl, k=k):
                    k[0] += 1
                    if k[0] == m:
                        return gen.build(odd_dsl, U)[0]
                    return gen.build(idsl, U)[0]

                ctx.count()
                r5 = outcome_of(lambda g=g: optree.tree_transpose_map(g, otree, **kw))
                try:
                    ref_flatten_up_to(iflat.desc, gen.build(odd_dsl, U)[0], U, iflat.namespace)
                    odd_matches = True
                except Mismatch:
                    odd_matches = False
                if r5 != ('exc', 'ValueError') and not odd_matches:
                    ctx.violation('transpose_map-varying-shape', f'{PROP}:transpose_map-varying-shape',
                                  dict(case, odd=odd_dsl), repr(r5)[:300])
    # the inner structure is taken from the FIRST result, also when that result is None and later ones are not
    if m >= 2:
        for variant, fn in (('map', optree.tree_transpose_map), ('path', optree.tree_transpose_map_with_path),
                            ('acc', optree.tree_transpose_map_with_accessor)):
            k = [0]
            later = []

            def h(*a, k=k, later=later):
                k[0] += 1
                if k[0] == 1:
                    return None
                later.append((un.Leaf(70 + k[0]), un.Leaf(80 + k[0])))
                return later[-1]

            ctx.count()
            r8 = outcome_of(lambda fn=fn, h=h: fn(h, otree, **kw))
            first_is_leaf = cfg['nil'] or (kw['is_leaf'] is not None and kw['is_leaf'](None))
            if first_is_leaf:
                # None is a leaf: the inner structure is a single leaf, every result is kept whole
                want8 = ref_unflatten(oflat.desc, [None, *later])
                ok = r8[0] == 'ok' and not why_different(want8, r8[1], U)
                if cfg['pred'] == 'tuple_or_none':
                    ok = r8[0] == 'ok' and not why_different(want8, r8[1], U)
            else:
                ok = r8 == ('exc', 'ValueError')  # None is a node without leaves: an empty inner structure
            if not ok:
                ctx.violation('transpose_map-first-result-none', f'{PROP}:transpose_map-inner-from-first-result',
                              {'tree': odsl, 'cfg': cfg, 'variant': variant}, repr(r8)[:400])
    # empty inner structures
    if m > 0:
        for edsl in EMPTIES:
            eobj, _ = gen.build(edsl, U)
            espec = optree.tree_structure(eobj, **kw)
            if espec.num_leaves:
                continue
            ctx.count()
            r = outcome_of(lambda: optree.tree_transpose(ospec, espec, otree, is_leaf=kw['is_leaf']))
            r6 = outcome_of(lambda: optree.tree_transpose_map(lambda x: gen.build(edsl, U)[0], otree, **kw))
            if r != ('exc', 'ValueError') or r6 != ('exc', 'ValueError'):
                ctx.violation('empty-structure', f'{PROP}:empty-structure', {'tree': odsl, 'cfg': cfg, 'inner': edsl}, f'{r!r} {r6!r}'[:400])
            # the same empty inner structure GIVEN explicitly, for all three map variants
            for variant, fn in (('map', optree.tree_transpose_map), ('path', optree.tree_transpose_map_with_path),
                                ('acc', optree.tree_transpose_map_with_accessor)):
                ctx.count()
                r7 = outcome_of(lambda fn=fn: fn(lambda *a: gen.build(edsl, U)[0], otree, inner_treespec=espec, **kw))
                if r7 != ('exc', 'ValueError'):
                    ctx.violation('empty-structure', f'{PROP}:empty-structure',
                                  {'tree': odsl, 'cfg': cfg, 'inner': edsl, 'given': True, 'variant': variant}, repr(r7)[:400])
    # namespace mismatch
    if cfg['ns'] == 'ns' and m > 0:
        a = optree.tree_structure(un.CN([un.Leaf(0)]), namespace='ns', none_is_leaf=cfg['nil'])
        oth = optree.tree_structure({'k': un.Leaf(0)}, namespace='other', none_is_leaf=cfg['nil'])
        with optree.dict_insertion_ordered(True, namespace='other'):
            oth = optree.tree_structure({'k': un.Leaf(0)}, namespace='other', none_is_leaf=cfg['nil'])
        if a.namespace == 'ns' and oth.namespace == 'other':
            ctx.count()
            r = outcome_of(lambda: optree.tree_transpose(a, oth, un.CN([{'k': un.Leaf(1)}])))
            if r != ('exc', 'ValueError'):
                ctx.violation('namespace-mismatch', f'{PROP}:namespace-mismatch', {'tree': odsl, 'cfg': cfg}, repr(r))


def run_shard(ctx):
    preds = ['none', 'tuple_or_none']
    modes = None
    nss = ['', 'ns'] if ctx.tier == 'quick' else None
    e1.drive(ctx, ctx.tier, lambda tree, leaves, dsl, cfg: check(ctx, tree, leaves, dsl, cfg),
             profile='medium', cfgs=e1.configs(ctx.tier, predicates=preds, modes=modes, namespaces=nss))


def replay(case, ctx):
    c = case['case']
    e1.replay_case({'tree': c['tree'], 'cfg': c['cfg']},
                   lambda tree, leaves, dsl, cfg: check(ctx, tree, leaves, dsl, cfg))
