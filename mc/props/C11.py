"""C11  Pickling a treespec preserves it exactly (E1 + loader histories in fresh interpreters)."""

from __future__ import annotations

import copy
import os
import pickle
import struct
import subprocess
import sys

PROP = 'C11'
HISTORIES = ('same', 'missing', 'other-namespace', 'reregistered')


# =============================================================================================
# loader side (fresh interpreter)


def loader_main(history):  # noqa: C901, PLR0912, PLR0915
    import optree  # noqa: PLC0415

    from mc import build  # noqa: PLC0415

    build.assert_overlay()
    from mc import e1, gen  # noqa: PLC0415
    from mc import universe as un  # noqa: PLC0415
    from mc.oracle import why_different  # noqa: PLC0415

    if history == 'same':
        U, _ = e1.universe()
    elif history == 'missing':
        U = None  # classes importable, but CG / CN / CD / CS / CM never registered here
    elif history == 'other-namespace':
        U = None
        optree.register_pytree_node(un.CN, un.cn_flatten, un.cn_unflatten, namespace='elsewhere')
        optree.register_pytree_node(un.CD, un.cd_flatten, un.cd_unflatten, namespace='elsewhere')
        optree.register_pytree_node(un.CG, lambda o: o.tree_flatten(), un.CG.tree_unflatten, namespace='elsewhere')
    elif history == 'reregistered':
        U, _ = e1.universe()
        optree.unregister_pytree_node(un.CN, namespace='ns')

        def cn2_flatten(o):
            return list(o.children), ('tag:CN@ns', o.meta), tuple(f'e{i}' for i in range(len(o.children)))

        optree.register_pytree_node(un.CN, cn2_flatten, un.cn_unflatten, path_entry_type=un.CNEntry, namespace='ns')
        U.reg[('ns', un.CN)].flatten = cn2_flatten
    inp, out = sys.stdin.buffer, sys.stdout.buffer
    while True:
        hdr = inp.read(4)
        if len(hdr) < 4:
            return
        (n,) = struct.unpack('<I', hdr)
        batch = pickle.loads(inp.read(n))  # noqa: S301
        verdicts = []
        for item in batch:
            dsl, cfg, payload, has_unregistered, sent = item
            try:
                loaded = pickle.loads(payload)  # noqa: S301
            except Exception as ex:  # noqa: BLE001
                verdicts.append(('raised', type(ex).__name__, str(ex)[:200]))
                continue
            if history in ('missing', 'other-namespace'):
                verdicts.append(('loaded', repr(loaded)[:300], None))
                continue
            problems = []
            with un.dict_mode(cfg['mode']):
                tree, leaves = gen.build(dsl, U)
                fresh_leaves, fresh = optree.tree_flatten(tree, **e1.kw_of(cfg))
            if not (loaded == fresh) or loaded != fresh or hash(loaded) != hash(fresh):
                problems.append(f'loaded {loaded!r} != fresh {fresh!r}')
            if repr(loaded) != repr(fresh):
                problems.append(f'repr {loaded!r} vs {fresh!r}')
            if loaded.paths() != sent['paths'] or loaded.paths() != fresh.paths():
                problems.append(f'paths {loaded.paths()!r} vs {sent["paths"]!r}')
            if loaded.accessors() != fresh.accessors() or loaded.entries() != fresh.entries():
                problems.append('accessors/entries differ from fresh')
            if (loaded.num_leaves, loaded.num_nodes, loaded.none_is_leaf, loaded.namespace) != sent['scalars']:
                problems.append(f'scalars {(loaded.num_leaves, loaded.num_nodes, loaded.none_is_leaf, loaded.namespace)} vs {sent["scalars"]}')
            try:
                rebuilt = loaded.unflatten(fresh_leaves)
                why = why_different(tree, rebuilt, U)
                if why:
                    problems.append(f'unflatten: {why}')
            except Exception as ex:  # noqa: BLE001
                problems.append(f'unflatten raised {ex!r}')
            verdicts.append(('ok' if not problems else 'bad', '; '.join(problems)[:600], None))
        data = pickle.dumps(verdicts)
        out.write(struct.pack('<I', len(data)) + data)
        out.flush()


# =============================================================================================
# explorer side


class Loader:
    def __init__(self, history):
        env = dict(os.environ)
        self.p = subprocess.Popen([sys.executable, '-m', 'mc.props.C11', '--loader', history],
                                  stdin=subprocess.PIPE, stdout=subprocess.PIPE, env=env)

    def ask(self, batch):
        data = pickle.dumps(batch)
        self.p.stdin.write(struct.pack('<I', len(data)) + data)
        self.p.stdin.flush()
        hdr = self.p.stdout.read(4)
        if len(hdr) < 4:
            raise RuntimeError('loader process died')
        (n,) = struct.unpack('<I', hdr)
        return pickle.loads(self.p.stdout.read(n))  # noqa: S301

    def close(self):
        try:
            self.p.stdin.close()
            self.p.wait(timeout=10)
        except Exception:  # noqa: BLE001
            self.p.kill()


def run_shard(ctx):  # noqa: C901, PLR0912, PLR0915
    import optree  # noqa: PLC0415

    from mc import e1, gen  # noqa: PLC0415
    from mc import universe as un  # noqa: PLC0415
    from mc.oracle import why_different  # noqa: PLC0415

    U, _ = e1.universe()
    preds = ['none', 'tuple_or_none']
    cfgs = e1.configs(ctx.tier, predicates=preds)
    loaders = {h: Loader(h) for h in HISTORIES}
    pending = []  # (dsl, cfg, payload, has_unreg, sent)
    UNREG_TYPES = {'missing': (un.CG, un.CN, un.CD, un.CS, un.CM), 'other-namespace': (un.CN, un.CD, un.CS, un.CM)}

    def custom_types(desc, acc):
        if desc.kind == 'custom':
            acc.add((desc.reg.type, desc.reg.namespace))
        for c in desc.children:
            custom_types(c, acc)
        return acc

    def flush():
        if not pending:
            return
        for h, ld in loaders.items():
            verdicts = ld.ask([(d, c, p, u, s) for d, c, p, u, s, _ in pending])
            for (dsl, cfg, _, _, _, customs), v in zip(pending, verdicts):
                ctx.count()
                case = {'tree': dsl, 'cfg': cfg, 'history': h}
                if h == 'same' or h == 'reregistered':
                    if v[0] != 'ok':
                        ctx.violation(f'loader:{h}', f'{PROP}:loader-{h}', case, repr(v))
                    ctx.outcome(f'{h}:{v[0]}')
                else:
                    if h == 'missing':
                        must_fail = any(t in UNREG_TYPES['missing'] for t, _ in customs)
                    else:
                        # CG is global in the pickle's recorded namespace; registered only 'elsewhere' here
                        must_fail = any(t in (un.CN, un.CD, un.CS, un.CM, un.CG) for t, _ in customs)
                    if must_fail and v[0] != 'raised':
                        ctx.violation(f'loader:{h}:unregistered-type-loaded', f'{PROP}:unregistered-type-loaded', case, repr(v))
                    if not must_fail and v[0] != 'loaded':
                        ctx.violation(f'loader:{h}:registered-type-failed', f'{PROP}:loader-failed', case, repr(v))
                    ctx.outcome(f'{h}:{v[0]}')
        del pending[:]

    def per_case(tree, leaves, dsl, cfg):
        kw = e1.kw_of(cfg)
        flat = e1.ref_flatten(tree, cfg)
        if e1.nontrivial(flat.desc):
            ctx.cls(e1.class_key(flat, cfg))
        leaves1, spec = optree.tree_flatten(tree, **kw)
        case = {'tree': dsl, 'cfg': cfg}
        routes = [(f'pickle{p}', lambda p=p: pickle.loads(pickle.dumps(spec, protocol=p))) for p in range(6)]  # noqa: S301
        routes += [('copy', lambda: copy.copy(spec)), ('deepcopy', lambda: copy.deepcopy(spec)),
                   ('setstate', lambda: _via_state(spec))]
        # the dict-order mode in force while dumping / loading must not matter: the treespec was made
        # under cfg['mode'] and must come back exactly, whatever mode the pickling happens under
        if cfg['pred'] == 'none':
            for dm in ('sorted', 'ins_ns', 'ins_global'):
                for lm in ('sorted', 'ins_ns', 'ins_global'):
                    if dm == lm == cfg['mode']:
                        continue
                    routes.append((f'pickle-dump@{dm}-load@{lm}', lambda dm=dm, lm=lm: _cross_mode(spec, dm, lm)))
            for m2 in ('sorted', 'ins_ns', 'ins_global'):
                if m2 != cfg['mode']:
                    routes.append((f'copy@{m2}', lambda m2=m2: _in_mode(m2, lambda: copy.copy(spec))))
                    routes.append((f'deepcopy@{m2}', lambda m2=m2: _in_mode(m2, lambda: copy.deepcopy(spec))))
        for name, fn in routes:
            ctx.count()
            try:
                got = fn()
            except Exception as ex:  # noqa: BLE001
                key = f'{PROP}:roundtrip-raises'
                if name in ('pickle0', 'pickle1') and isinstance(ex, TypeError) and 'cannot pickle' in str(ex):
                    key = f'{PROP}:pickle-protocol-0-1:TypeError-cannot-pickle'
                ctx.violation(f'{name}-raises', key, case, repr(ex))
                continue
            problems = []
            if not (got == spec) or got != spec or hash(got) != hash(spec):
                problems.append('== / hash')
            if repr(got) != repr(spec):
                problems.append('repr')
            if got.paths() != spec.paths() or got.accessors() != spec.accessors():
                problems.append('paths/accessors')
            if got.entries() != spec.entries() or got.children() != spec.children():
                problems.append('entries/children')
            if (got.num_leaves, got.num_nodes, got.namespace, got.none_is_leaf, got.kind, got.type) != (
                spec.num_leaves, spec.num_nodes, spec.namespace, spec.none_is_leaf, spec.kind, spec.type):
                problems.append('scalars')
            try:
                why = why_different(tree, got.unflatten(leaves1), U)
                if why:
                    problems.append('unflatten: ' + why)
            except Exception as ex:  # noqa: BLE001
                problems.append(f'unflatten raised {ex!r}')
            if problems:
                ctx.violation(f'{name}', f'{PROP}:roundtrip', case, f'{problems}: {got!r} vs {spec!r}')
        ctx.outcome(f'inproc:leaves={len(leaves1)}')
        # cross-process: one protocol per case, rotating
        if cfg['pred'] == 'none':
            proto = 2 + (len(pending) + ctx.evaluations) % 4
            customs = custom_types(flat.desc, set()) if flat.desc.kind != 'leaf' else set()
            sent = {'paths': spec.paths(),
                    'scalars': (spec.num_leaves, spec.num_nodes, spec.none_is_leaf, spec.namespace)}
            pending.append((dsl, cfg, pickle.dumps(spec, protocol=proto), None, sent, customs))
            if len(pending) >= 400:
                flush()

    try:
        load_histories(ctx, 4 if ctx.tier == 'quick' else 5)
        e1.drive(ctx, ctx.tier, per_case, profile='tiny' if ctx.tier == 'quick' else 'small', cfgs=cfgs)
        flush()
    finally:
        for ld in loaders.values():
            ld.close()


# ---- in-process load histories (registry changes BETWEEN loads of the same pickle) --------------------
class HX:
    """Custom node class for the load histories (module level so that it can be pickled by reference)."""

    def __init__(self, children, meta='m'):
        self.children = list(children)
        self.meta = meta


def hx_flatten_v1(o):
    return list(o.children), ('v1', o.meta), tuple(f'k{i}' for i in range(len(o.children)))


def hx_unflatten_v1(meta, children):
    out = HX(children, meta[1])
    out.via = 'v1'
    return out


def hx_flatten_v2(o):  # other function objects, same flatten output (the pickle stays comparable)
    return list(o.children), ('v1', o.meta), tuple(f'k{i}' for i in range(len(o.children)))


def hx_unflatten_v2(meta, children):
    out = HX(children, meta[1])
    out.via = 'v2'
    return out


LOAD_EVENTS = ('load', 'load-keep', 'drop-kept', 'unregister', 'register-v1', 'register-v2')


def load_history(ctx, hist):
    """One history over LOAD_EVENTS on a fresh registration of HX in namespace 'ns11'; the pickles were made
    under registration v1.  After every 'load*' event: if HX is not registered, loading must raise; otherwise
    the loaded treespec must equal (==, hash, repr, paths) a treespec flattened afresh NOW and unflatten
    through the CURRENT functions."""
    import gc  # noqa: PLC0415

    import optree  # noqa: PLC0415

    from mc.universe import Leaf  # noqa: PLC0415

    NSH = 'ns11'
    optree.register_pytree_node(HX, hx_flatten_v1, hx_unflatten_v1, namespace=NSH)
    state = 'v1'
    kept = []
    try:
        tree = [HX([Leaf(0), (Leaf(1),)]), {'b': HX([Leaf(2)], 'mm'), 'a': Leaf(3)}]
        spec0 = optree.tree_structure(tree, namespace=NSH)
        blobs = [pickle.dumps(spec0, protocol=p) for p in (2, 5)]
        del spec0
        for step, ev in enumerate(hist):
            if ev == 'unregister':
                if state != 'none':
                    optree.unregister_pytree_node(HX, namespace=NSH)
                    state = 'none'
            elif ev in ('register-v1', 'register-v2'):
                if state == 'none':
                    v = ev[-2:]
                    fl, un_ = (hx_flatten_v1, hx_unflatten_v1) if v == 'v1' else (hx_flatten_v2, hx_unflatten_v2)
                    optree.register_pytree_node(HX, fl, un_, namespace=NSH)
                    state = v
            elif ev == 'drop-kept':
                del kept[:]
                gc.collect()
            else:
                for blob in blobs:
                    ctx.count()
                    r = outcome_of(lambda blob=blob: pickle.loads(blob))  # noqa: S301
                    case = {'load_history': list(hist), 'step': step}
                    if state == 'none':
                        if r[0] != 'exc':
                            ctx.violation('load-history:unregistered-type-loaded', f'{PROP}:load-history', case,
                                          f'HX is not registered but loading returned {r[1]!r}')
                        continue
                    if r[0] != 'ok':
                        ctx.violation('load-history:load-raises', f'{PROP}:load-history', case, repr(r))
                        continue
                    got = r[1]
                    leaves, fresh = optree.tree_flatten(tree, namespace=NSH)
                    problems = []
                    if got != fresh or hash(got) != hash(fresh) or repr(got) != repr(fresh) or got.paths() != fresh.paths():
                        problems.append(f'loaded {got!r} vs fresh {fresh!r}')
                    rebuilt = outcome_of(lambda: got.unflatten(leaves))
                    if rebuilt[0] != 'ok' or optree.tree_leaves(rebuilt[1], namespace=NSH) != leaves:
                        problems.append(f'unflatten -> {rebuilt!r}')
                    elif getattr(rebuilt[1][0], 'via', None) != state:
                        problems.append(f'unflatten went through the {getattr(rebuilt[1][0], "via", None)} function, '
                                        f'current registration is {state}')
                    if problems:
                        ctx.violation('load-history:stale-binding', f'{PROP}:load-history', case,
                                      f'registration now {state}: ' + '; '.join(problems)[:500])
                    if ev == 'load-keep':
                        kept.append(got)
        ctx.outcome('load-history')
    finally:
        del kept[:]
        if state != 'none':
            optree.unregister_pytree_node(HX, namespace=NSH)


def load_histories(ctx, max_len):
    import itertools  # noqa: PLC0415

    idx = 0
    for n in range(1, max_len + 1):
        for hist in itertools.product(LOAD_EVENTS, repeat=n):
            if not any(e.startswith('load') for e in hist):
                continue
            idx += 1
            if not ctx.mine(idx):
                continue
            ctx.cls(('load-history', hist))
            load_history(ctx, hist)
    ctx.extra['load-histories'] += idx


from mc.e1 import outcome_of  # noqa: E402


def _in_mode(mode, fn):
    from mc import universe as un  # noqa: PLC0415

    with un.force_mode(mode):
        return fn()


def _cross_mode(spec, dump_mode, load_mode):
    data = _in_mode(dump_mode, lambda: pickle.dumps(spec, protocol=4))
    return _in_mode(load_mode, lambda: pickle.loads(data))  # noqa: S301


def _via_state(spec):
    import optree  # noqa: PLC0415

    new = optree.PyTreeSpec.__new__(optree.PyTreeSpec)
    new.__setstate__(spec.__getstate__())
    return new


def replay(case, ctx):
    from mc import e1  # noqa: PLC0415

    ctx.tier = 'quick'
    c = case['case']

    # re-run the whole (small) neighbourhood of that tree through all routes and loaders
    import mc.e1 as e1mod  # noqa: PLC0415

    saved = e1mod.strata
    e1mod.strata = lambda tier, profile='full': (('replay', (c['tree'],)),)
    try:
        ctx.nshards, ctx.shard = 1, 0
        run_shard(ctx)
    finally:
        e1mod.strata = saved
    _ = e1


if __name__ == '__main__':
    if len(sys.argv) >= 3 and sys.argv[1] == '--loader':
        loader_main(sys.argv[2])
