"""C12  Registry changes are namespace-isolated, atomic and reversible (E2 + argument faults)."""

from __future__ import annotations

import os
import warnings
from collections import namedtuple

import optree
from optree.registry import __GLOBAL_NAMESPACE as GLOBAL  # noqa: N811

from mc import explore
from mc.e1 import outcome_of
from mc.universe import Leaf

PROP = 'C12'
OBS_NS = ('', 'a', 'ab', 'xaby')  # 'a' is a substring of 'ab', both of 'xaby' (namespace lookups must be exact matches)
REG_NS = ('', 'a', 'ab')  # '' stands for the global sentinel here  # 'a' is a substring of 'ab', both of 'xaby' (namespace lookups must be exact matches)
TYPE_NAMES = {'quick': ('T0', 'T1', 'T2', 'T4'), 'thorough': ('T0', 'T1', 'T2', 'T3', 'T4')}


def ns_arg(ns):
    return GLOBAL if ns == '' else ns


class World:
    """Fresh classes for one execution."""

    def __init__(self):
        class T0:
            def __init__(self, x=None):
                self.x = x

            def tree_flatten(self):
                return (self.x,), f'{type(self).__name__}#class', ('x',)

            @classmethod
            def tree_unflatten(cls, metadata, children):
                return cls(*children)

        class T1(T0):
            pass

        class T2(namedtuple('T2base', 'p q')):  # noqa: PYI024, SLOT002
            def tree_flatten(self):
                return tuple(self), 'T2#class', None

            @classmethod
            def tree_unflatten(cls, metadata, children):
                return cls(*children)

        class T5:
            a: int = 0
            b: int = 1

        self.types = {'T0': T0, 'T1': T1, 'T2': T2, 'T3': os.terminal_size, 'T4': list, 'T5': T5}
        self.leaf = Leaf(0)
        self.instances = {
            'T0': T0(self.leaf), 'T1': T1(self.leaf), 'T2': T2(self.leaf, self.leaf),
            'T3': os.terminal_size((self.leaf, self.leaf)), 'T4': [self.leaf], 'T5': None,
        }
        self.done = []  # successful registrations to clean up: (tname, ns)

    def func_pair(self, tname, ns):
        tag = f'{tname}#func:{ns or "global"}'
        t = self.types[tname]

        def flatten(o, tag=tag):
            if tname in ('T0', 'T1'):
                return (o.x,), tag
            return tuple(o), tag

        def unflatten(meta, children, t=t):
            if tname in ('T0', 'T1', 'T2'):
                return t(*children)
            return t(children)

        return flatten, unflatten, tag

    def instance(self, tname):
        if tname == 'T5':
            try:
                return self.types['T5'](1, 2)
            except TypeError:
                return self.types['T5']()
        return self.instances[tname]

    def cleanup(self):
        for tname, t in self.types.items():
            for ns in REG_NS:
                try:
                    optree.unregister_pytree_node(t, namespace=ns_arg(ns))
                except Exception:  # noqa: BLE001
                    pass
        # the Python mirror may hold stale entries if engine and mirror diverged
        import optree.registry as reg  # noqa: PLC0415

        for key in list(reg._NODETYPE_REGISTRY):
            t = key[1] if isinstance(key, tuple) else key
            if t in (self.types['T0'], self.types['T1'], self.types['T2'], self.types['T5']) or (
                t is os.terminal_size):
                reg._NODETYPE_REGISTRY.pop(key, None)


DEFAULT_KIND = {'T0': 'leaf', 'T1': 'leaf', 'T2': 'namedtuple', 'T3': 'structsequence', 'T4': 'list', 'T5': 'leaf'}


class RegistrySystem(explore.System):
    name = 'registry'

    def __init__(self, tnames, warn_mode, with_faults=True):
        self.tnames = tnames
        self.warn_mode = warn_mode
        self.with_faults = with_faults

    def initial(self):
        return (frozenset(), False)  # (registrations {((ns, tname), tag)}, T5 decorated?)

    def canon(self, state):
        return (tuple(sorted(state[0])), state[1])

    def events(self, state):
        evs = []
        for t in self.tnames:
            forms = ['func', 'class-call', 'class-deco', 'class-str'] if t in ('T0', 'T1', 'T2') else ['func', 'class-call']
            for ns in REG_NS:
                for f in forms:
                    if f == 'class-str' and ns == '':
                        continue
                    evs.append(('reg', t, ns, f))
                evs.append(('unreg', t, ns))
            evs.append(('reg', t, 'EMPTY', 'func'))
            evs.append(('unreg', t, 'EMPTY'))
        for ns in (*REG_NS, 'EMPTY'):
            evs.append(('dataclass', ns))
        for ns in REG_NS:
            evs.append(('unreg', 'T5', ns))
        if self.with_faults:
            for kind in ('reg-non-class', 'reg-bad-entry-type', 'reg-non-string-namespace', 'reg-flatten-none',
                         'unreg-non-class', 'unreg-non-string-namespace', 'class-no-namespace',
                         'class-string-and-namespace'):
                evs.append(('fault', kind))
        return evs

    def step(self, state, ev):
        regs, decorated = state
        d = dict(regs)
        if ev[0] == 'reg':
            _, t, ns, form = ev
            if ns == 'EMPTY':
                return state, 'raises:ValueError'
            if t == 'T4':
                return state, 'raises'
            if form != 'func' and t == 'T3':
                return state, 'raises'
            if (ns, t) in d:
                return state, 'raises:ValueError'
            if self.warn_mode == 'error' and t in ('T2', 'T3'):
                return state, 'raises:UserWarning'
            tag = f'{t}#func:{ns or "global"}' if form == 'func' else f'{t}#class'
            d[(ns, t)] = tag
            return (frozenset(d.items()), decorated), 'ok'
        if ev[0] == 'unreg':
            _, t, ns = ev
            if ns == 'EMPTY':
                return state, 'raises:ValueError'
            if t == 'T4' or (ns, t) not in d:
                return state, 'raises:ValueError'
            del d[(ns, t)]
            return (frozenset(d.items()), decorated), 'ok'
        if ev[0] == 'dataclass':
            ns = ev[1]
            if decorated:
                return state, 'raises:TypeError'
            if ns == 'EMPTY':
                return state, 'raises:ValueError'
            d[(ns, 'T5')] = 'T5#dataclass'
            return (frozenset(d.items()), True), 'ok'
        return state, 'raises'

    # ---- implementation ----------------------------------------------------------------------------
    def _apply(self, w, ev):  # noqa: C901, PLR0911, PLR0912
        T = w.types
        if ev[0] == 'reg':
            _, t, ns, form = ev
            nsa = '' if ns == 'EMPTY' else ns_arg(ns)
            cls = T[t]
            if form == 'func':
                fl, un, _ = w.func_pair(t, '' if ns == 'EMPTY' else ns)
                return outcome_of(lambda: optree.register_pytree_node(cls, fl, un, namespace=nsa))
            if form == 'class-call':
                return outcome_of(lambda: optree.register_pytree_node_class(cls, namespace=nsa))
            if form == 'class-deco':
                return outcome_of(lambda: optree.register_pytree_node_class(namespace=nsa)(cls))
            return outcome_of(lambda: optree.register_pytree_node_class(nsa)(cls))
        if ev[0] == 'unreg':
            _, t, ns = ev
            nsa = '' if ns == 'EMPTY' else ns_arg(ns)
            return outcome_of(lambda: optree.unregister_pytree_node(T[t], namespace=nsa))
        if ev[0] == 'dataclass':
            ns = ev[1]
            nsa = '' if ns == 'EMPTY' else ns_arg(ns)
            return outcome_of(lambda: optree.dataclasses.dataclass(T['T5'], namespace=nsa))
        kind = ev[1]
        fl, un, _ = w.func_pair('T0', 'a')
        if kind == 'reg-non-class':
            return outcome_of(lambda: optree.register_pytree_node(5, fl, un, namespace='a'))
        if kind == 'reg-bad-entry-type':
            return outcome_of(lambda: optree.register_pytree_node(T['T0'], fl, un, path_entry_type=int, namespace='a'))
        if kind == 'reg-non-string-namespace':
            return outcome_of(lambda: optree.register_pytree_node(T['T0'], fl, un, namespace=5))
        if kind == 'reg-flatten-none':
            return outcome_of(lambda: optree.register_pytree_node(T['T0'], None, un, namespace='a'))
        if kind == 'unreg-non-class':
            return outcome_of(lambda: optree.unregister_pytree_node(5, namespace='a'))
        if kind == 'unreg-non-string-namespace':
            return outcome_of(lambda: optree.unregister_pytree_node(T['T0'], namespace=5))
        if kind == 'class-no-namespace':
            return outcome_of(lambda: optree.register_pytree_node_class(T['T0']))
        if kind == 'class-string-and-namespace':
            return outcome_of(lambda: optree.register_pytree_node_class('a', namespace='ab'))
        raise AssertionError(kind)

    def observe(self, w):  # noqa: C901
        vec = {}
        get = optree.register_pytree_node.get
        for t in (*self.tnames, 'T5'):
            cls = w.types[t]
            inst = w.instance(t)
            for ns in OBS_NS:
                try:
                    mapping = get(namespace=ns)
                except Exception as ex:  # noqa: BLE001
                    mapping = ex
                for nil in (False, True):
                    o = {}
                    r = outcome_of(lambda: optree.tree_flatten(inst, namespace=ns, none_is_leaf=nil))
                    if r[0] == 'ok':
                        leaves, spec = r[1]
                        if spec.kind.name == 'CUSTOM':
                            meta = spec.__getstate__()[0][-1][2]
                            o['flatten'] = ('custom', _tagof(meta))
                        else:
                            o['flatten'] = (spec.kind.name.lower(), None) if not spec.is_leaf() else ('leaf', None)
                    else:
                        o['flatten'] = r
                    r1 = outcome_of(lambda: optree.tree_flatten_one_level(inst, namespace=ns, none_is_leaf=nil))
                    if r1[0] == 'ok':
                        k = r1[1].kind.name.lower()
                        o['one_level'] = (k, _tagof(r1[1].metadata) if k == 'custom' else None)
                    else:
                        o['one_level'] = ('leaf', None) if r1[1] == 'ValueError' else r1
                    vec[(t, ns, nil)] = o
                e = outcome_of(lambda: get(cls, namespace=ns))
                o2 = {}
                if e[0] == 'ok':
                    ent = e[1]
                    if ent is None:
                        o2['get'] = ('leaf', None, None)
                    elif ent.kind.name == 'CUSTOM':
                        o2['get'] = ('custom', _probe_tag(ent, inst), ent.namespace)
                    else:
                        o2['get'] = (ent.kind.name.lower(), None, ent.namespace)
                else:
                    o2['get'] = e
                if isinstance(mapping, Exception):
                    o2['get_all'] = repr(mapping)
                else:
                    ent = mapping.get(cls)
                    if ent is None:
                        o2['get_all'] = ('absent', None, None)
                    elif ent.kind.name == 'CUSTOM':
                        o2['get_all'] = ('custom', _probe_tag(ent, inst), ent.namespace)
                    else:
                        o2['get_all'] = (ent.kind.name.lower(), None, ent.namespace)
                vec[(t, ns, 'py')] = o2
        return vec

    def predict(self, state):
        d = dict(state[0])
        vec = {}
        for t in (*self.tnames, 'T5'):
            for ns in OBS_NS:
                win = None
                if ns and (ns, t) in d:
                    win = (ns, d[(ns, t)])
                elif ('', t) in d:
                    win = ('', d[('', t)])
                for nil in (False, True):
                    if win:
                        vec[(t, ns, nil)] = {'flatten': ('custom', win[1]), 'one_level': ('custom', win[1])}
                    else:
                        k = DEFAULT_KIND[t]
                        vec[(t, ns, nil)] = {'flatten': (k, None), 'one_level': (k, None)}
                if win:
                    g = ('custom', win[1], win[0])
                    vec[(t, ns, 'py')] = {'get': g, 'get_all': g}
                else:
                    k = DEFAULT_KIND[t]
                    vec[(t, ns, 'py')] = {
                        'get': (k, None, '') if k != 'leaf' else ('leaf', None, None),
                        'get_all': ('list', None, '') if t == 'T4' else ('absent', None, None),
                    }
        return vec

    def execute(self, history, ev, src, dst, expected):
        problems = []
        w = World()
        feats = _features([*history, ev], self.warn_mode)
        try:
            with warnings.catch_warnings(record=True):
                warnings.simplefilter('error' if self.warn_mode == 'error' else 'always')
                for h in history:
                    self._apply(w, h)
                r = self._apply(w, ev)
                outcome = 'ok' if r[0] == 'ok' else f'raises:{r[1]}'
                ok = (outcome == expected) or (expected == 'raises' and r[0] == 'exc')
                if not ok:
                    problems.append(('event-outcome', f'{ev} after {list(history)}: {outcome}, model expects {expected}',
                                     _vkey('event-outcome', feats)))
                warnings.simplefilter('ignore')
                got, want = self.observe(w), self.predict(dst)
            for k in want:
                for field in want[k]:
                    if got[k][field] != want[k][field]:
                        problems.append((f'observation:{field}',
                                         f'after {[*history, ev]} [{self.warn_mode}]: {field}{k} = {got[k][field]!r}, '
                                         f'model predicts {want[k][field]!r}', _vkey(f'observation:{field}', feats)))
        finally:
            with warnings.catch_warnings():
                warnings.simplefilter('ignore')
                w.cleanup()
        return problems[:6]


def _tagof(meta):
    if isinstance(meta, str):
        return meta.replace('T1#class', 'T1#class')
    if isinstance(meta, tuple) and meta and isinstance(meta[0], tuple):
        return 'T5#dataclass'
    if meta == ():
        return 'T5#dataclass'
    return repr(meta)


def _probe_tag(entry, inst):
    try:
        out = entry.flatten_func(inst)
        return _tagof(out[1])
    except Exception as ex:  # noqa: BLE001
        return f'<flatten_func raised {type(ex).__name__}>'


def _features(events, warn_mode):
    f = set()
    for e in events:
        if e[0] == 'reg' and e[1] in ('T2', 'T3') and warn_mode == 'error' and e[2] != 'EMPTY':
            f.add('warning-as-error')
    return f


def _vkey(oracle, feats):
    if 'warning-as-error' in feats:
        return f'{PROP}:warnings-as-errors:namedtuple-or-structseq-registration-not-atomic'
    if oracle == 'observation:get_all':
        return f'{PROP}:get(namespace)-global-entry-shadows-namespaced'
    return f'{PROP}:{oracle}'


SWEEP_TYPES = (int, float, complex, str, bytes, bool, frozenset, set, range, bytearray, type, object, slice,
               memoryview, type(Ellipsis), type(NotImplemented), type(len), type(lambda: 0))


def _sweep_instance(t):
    samples = {int: 5, float: 1.5, complex: 1 + 2j, str: 'txt', bytes: b'by', bool: True, frozenset: frozenset({1}),
               set: {1}, range: range(3), bytearray: bytearray(b'x'), type: int, object: object(), slice: slice(1, 2),
               memoryview: memoryview(b'abc'), type(Ellipsis): Ellipsis, type(NotImplemented): NotImplemented,
               type(len): len, type(lambda: 0): (lambda: 0)}
    return samples[t]


def type_sweep(ctx, prop=PROP):
    """Every ordinary builtin leaf type can be registered as a custom node (exact-type rule): register it in
    namespace 'a' / globally, observe node-vs-leaf in every namespace under both none_is_leaf values and through
    every traversal, unregister, observe again."""
    for ti, t in enumerate(SWEEP_TYPES):
        if not ctx.mine(ti):
            continue
        inst = _sweep_instance(t)
        marker = Leaf(99)
        tag = f'sweep:{t.__name__}'
        for ns in ('a', ''):
            ctx.count()
            ctx.cls(('type-sweep', t.__name__, ns))
            case = {'type_sweep': t.__name__, 'namespace': ns or 'global'}
            r = outcome_of(lambda: optree.register_pytree_node(t, lambda o: ((marker,), tag), lambda m, c: inst,
                                                               namespace=ns_arg(ns)))
            if r[0] != 'ok':
                ctx.violation('sweep-register', f'{prop}:type-sweep:register', case, repr(r))
                continue
            try:
                for obs_ns in OBS_NS:
                    visible = obs_ns == ns or ns == ''
                    for nil in (False, True):
                        tree = [inst, (inst,)]
                        kw = {'namespace': obs_ns, 'none_is_leaf': nil}
                        got = {
                            'flatten': outcome_of(lambda: optree.tree_leaves(tree, **kw)),
                            'with_path': outcome_of(lambda: optree.tree_flatten_with_path(tree, **kw)[1]),
                            'iter': outcome_of(lambda: list(optree.tree_iter(tree, **kw))),
                            'is_leaf': outcome_of(lambda: optree.tree_is_leaf(inst, **kw)),
                            'all_leaves': outcome_of(lambda: optree.all_leaves([inst], **kw)),
                            'kind': outcome_of(lambda: optree.tree_structure(inst, **kw).kind.name),
                            'one_level': outcome_of(lambda: optree.tree_flatten_one_level(inst, **kw).metadata)[:2],
                        }
                        want_leaves = [marker, marker] if visible else [inst, inst]
                        want = {
                            'flatten': ('ok', want_leaves), 'with_path': ('ok', want_leaves), 'iter': ('ok', want_leaves),
                            'is_leaf': ('ok', not visible), 'all_leaves': ('ok', not visible),
                            'kind': ('ok', 'CUSTOM' if visible else 'LEAF'),
                            'one_level': ('ok', tag) if visible else ('exc', 'ValueError'),
                        }
                        for k in want:
                            g, w = got[k], want[k]
                            same = g[0] == w[0] and (
                                (len(g[1]) == len(w[1]) and all(a is b for a, b in zip(g[1], w[1])))
                                if isinstance(w[1], list) and isinstance(g[1], list) else g[1] == w[1])
                            if not same:
                                ctx.violation(f'sweep:{k}', f'{prop}:type-sweep:registered-builtin-type-not-a-node', case,
                                              f'{t.__name__} registered in {ns or "global"}, observed in {obs_ns!r} nil={nil}: '
                                              f'{k} = {g!r}, expected {w!r}')
                    ent = optree.register_pytree_node.get(t, namespace=obs_ns)
                    if (ent is not None and ent.kind.name == 'CUSTOM') != visible:
                        ctx.violation('sweep:get', f'{prop}:type-sweep:get', case, f'get({t.__name__}, {obs_ns!r}) = {ent!r}')
            finally:
                u = outcome_of(lambda: optree.unregister_pytree_node(t, namespace=ns_arg(ns)))
            if u[0] != 'ok':
                ctx.violation('sweep-unregister', f'{prop}:type-sweep:unregister', case, repr(u))
            back = outcome_of(lambda: optree.tree_leaves([inst], namespace=ns or 'a'))
            if back[0] != 'ok' or len(back[1]) != 1 or back[1][0] is not inst:
                ctx.violation('sweep-after-unregister', f'{prop}:type-sweep:unregister', case, repr(back))
            ctx.outcome('type-sweep')


def run_shard(ctx):
    type_sweep(ctx)
    tn = TYPE_NAMES[ctx.tier]
    depth = 3 if ctx.tier == 'quick' else 5
    for warn_mode in ('always', 'error'):
        explore.bfs(ctx, RegistrySystem(tn, warn_mode), depth, label=f'{warn_mode}')


def replay(case, ctx):
    c = case['case']
    warn_mode = c['label']
    sysm = RegistrySystem(TYPE_NAMES['thorough'], warn_mode)
    state = sysm.initial()
    hist = [tuple(e) for e in c['history']]
    for h in hist:
        state, _ = sysm.step(state, h)
    ev = tuple(c['event'])
    dst, expected = sysm.step(state, ev)
    ctx.count()
    for oracle, detail, key in sysm.execute(tuple(hist), ev, state, dst, expected):
        ctx.violation(oracle, key, c, detail)
