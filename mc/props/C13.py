"""C13  Insertion-ordered dict mode is scoped to its namespace and with-block (E2)."""

from __future__ import annotations

from collections import OrderedDict, defaultdict

import optree
import optree._C as _C
from optree.registry import __GLOBAL_NAMESPACE as GLOBAL  # noqa: N811

from mc import explore
from mc.universe import Leaf

PROP = 'C13'
NSS = ('', 'a', 'ab')
OBS_NS = ('', 'a', 'ab', 'xaby')


class Boom(Exception):
    pass


def make_tree():
    L = [Leaf(i) for i in range(8)]
    inner = defaultdict(None)
    inner['z'] = L[2]
    inner['y'] = L[3]
    od = OrderedDict()
    od['q'] = L[4]
    od['p'] = L[5]
    od.move_to_end('q')  # iteration order (p, q) now differs from the order of the underlying hash table
    tree = {'b': L[0], 'a': L[1], 'c': inner, 'o': od, 2: [L[6]], 1: (L[7],)}
    return tree, L


# expected leaf orders
def expected_order(insertion):
    if insertion:
        return (0, 1, 2, 3, 5, 4, 6, 7)
    # sorted with type-name fallback: ints (builtins.int) before strs (builtins.str): 1, 2, 'a', 'b', 'c', 'o'
    return (7, 6, 1, 0, 3, 2, 5, 4)


class ModeSystem(explore.System):
    name = 'dict_insertion_ordered'

    def __init__(self, max_nesting, exit_kinds=('exit', 'raise'), observe_event=False, precreate=False):
        self.max_nesting = max_nesting
        # precreate: every manager object of a history is created before its first event (creation must not capture state)
        self.precreate = precreate
        self.pre = None
        self.exit_kinds = exit_kinds  # 'exit' normal, 'raise' Exception, 'raise-base' BaseException-only, 'close'
        self.observe_event = observe_event  # observation in mid-history as an event (it must be side-effect free)

    def initial(self):
        return (frozenset(), ())

    def events(self, state):
        S, stack = state
        evs = []
        if len(stack) < self.max_nesting:
            for ns in NSS:
                for mode in (True, False):
                    evs.append(('enter', mode, ns))
        if stack:
            for k in self.exit_kinds:
                evs.append((k,))
        if self.observe_event:
            evs.append(('observe',))
        return evs

    def step(self, state, ev):
        S, stack = state
        if ev[0] == 'enter':
            _, mode, ns = ev
            prev = ns in S
            S2 = S | {ns} if mode else S - {ns}
            return (S2, (*stack, (ns, prev))), 'ok'
        if ev[0] == 'observe':
            return state, 'ok'
        ns, prev = stack[-1]
        S2 = S | {ns} if prev else S - {ns}
        return (S2, stack[:-1]), 'ok'

    # ---- implementation side ---------------------------------------------------------------------
    def _apply(self, cms, ev):
        """Every block is a real `with` statement inside a generator: entered by next(), left normally by next(),
        by an Exception / a BaseException-only exception thrown in, or by abandoning the generator (close())."""
        if ev[0] == 'enter':
            _, mode, ns = ev

            cm = self.pre.pop(0) if self.pre is not None else None

            def holder():
                with (cm if cm is not None else optree.dict_insertion_ordered(mode, namespace=GLOBAL if ns == '' else ns)):
                    yield 'inside'
                yield 'after'

            g = holder()
            next(g)
            cms.append(g)
            return 'ok'
        if ev[0] == 'observe':
            self.observe()
            return 'ok'
        g = cms.pop()
        if ev[0] == 'exit':
            return 'ok' if next(g) == 'after' else 'swallowed'
        if ev[0] == 'close':
            g.close()
            return 'ok'
        exc = Boom() if ev[0] == 'raise' else KeyboardInterrupt()
        try:
            g.throw(exc)
        except (Boom, KeyboardInterrupt) as e:
            return 'ok' if e is exc else 'replaced'  # propagates out of the block
        return 'swallowed'

    def observe(self):
        vec = {}
        tree, L = make_tree()
        idx = {id(x): i for i, x in enumerate(L)}
        leafspec = optree.treespec_leaf()
        for ns in OBS_NS:
            o = {}
            leaves, spec = optree.tree_flatten(tree, namespace=ns)
            o['flatten'] = tuple(idx[id(x)] for x in leaves)
            paths, leaves2, spec2 = optree.tree_flatten_with_path(tree, namespace=ns)
            o['with_path'] = tuple(idx[id(x)] for x in leaves2)
            o['paths_top'] = tuple(p[0] for p in paths)
            o['iter'] = tuple(idx[id(x)] for x in optree.tree_iter(tree, namespace=ns))
            o['spec_eq'] = spec == spec2 and hash(spec) == hash(spec2)
            o['entries'] = tuple(spec.entries())
            o['dd_entries'] = tuple(spec.child(spec.entries().index('c')).entries())
            o['od_entries'] = tuple(spec.child(spec.entries().index('o')).entries())
            rebuilt = optree.tree_unflatten(spec, leaves)
            o['roundtrip'] = (list(rebuilt) == list(tree) and list(rebuilt['c']) == list(tree['c'])
                              and type(rebuilt['c']) is defaultdict and list(rebuilt['o']) == ['p', 'q']
                              and all(a is b for a, b in zip(optree.tree_leaves(rebuilt, namespace=ns), leaves)))
            o['treespec_dict'] = tuple(optree.treespec_dict({'b': leafspec, 'a': leafspec}, namespace=ns).entries())
            o['treespec_defaultdict'] = tuple(
                optree.treespec_defaultdict(None, {'b': leafspec, 'a': leafspec}, namespace=ns).entries())
            o['treespec_ordereddict'] = tuple(
                optree.treespec_ordereddict(OrderedDict([('b', leafspec), ('a', leafspec)]), namespace=ns).entries())
            o['from_collection'] = tuple(
                optree.treespec_from_collection({'b': leafspec, 'a': leafspec}, namespace=ns).entries())
            get = optree.register_pytree_node.get
            o['get_dict'] = get(dict, namespace=ns).flatten_func.__name__
            o['get_defaultdict'] = get(defaultdict, namespace=ns).flatten_func.__name__
            o['get_all_dict'] = get(namespace=ns)[dict].flatten_func.__name__
            o['get_all_defaultdict'] = get(namespace=ns)[defaultdict].flatten_func.__name__
            o['get_ordereddict'] = get(OrderedDict, namespace=ns).flatten_func.__name__
            one = optree.tree_flatten_one_level({'b': 1, 'a': 2}, namespace=ns)
            o['one_level'] = tuple(one[0])
            o['engine_flag'] = _C.is_dict_insertion_ordered(ns)
            vec[ns] = o
        return vec

    def predict(self, state):
        S, _ = state
        vec = {}
        for ns in OBS_NS:
            ins = ns in S or '' in S
            order = expected_order(ins)
            top = ('b', 'a', 'c', 'c', 'o', 'o', 2, 1) if ins else (1, 2, 'a', 'b', 'c', 'c', 'o', 'o')
            vec[ns] = {
                'flatten': order, 'with_path': order, 'iter': order, 'paths_top': top, 'spec_eq': True,
                'entries': ('b', 'a', 'c', 'o', 2, 1) if ins else (1, 2, 'a', 'b', 'c', 'o'),
                'dd_entries': ('z', 'y') if ins else ('y', 'z'),
                'od_entries': ('p', 'q'),
                'roundtrip': True,
                'treespec_dict': ('b', 'a') if ins else ('a', 'b'),
                'treespec_defaultdict': ('b', 'a') if ins else ('a', 'b'),
                'treespec_ordereddict': ('b', 'a'),
                'from_collection': ('b', 'a') if ins else ('a', 'b'),
                'get_dict': '_dict_insertion_ordered_flatten' if ins else '_dict_flatten',
                'get_defaultdict': '_defaultdict_insertion_ordered_flatten' if ins else '_defaultdict_flatten',
                'get_all_dict': '_dict_insertion_ordered_flatten' if ins else '_dict_flatten',
                'get_all_defaultdict': '_defaultdict_insertion_ordered_flatten' if ins else '_defaultdict_flatten',
                'get_ordereddict': '_ordereddict_flatten',
                'one_level': (1, 2) if ins else (2, 1),
                'engine_flag': ins,
            }
        return vec

    def execute(self, history, ev, src, dst, expected):
        problems = []
        cms = []
        self.pre = None
        if self.precreate:
            self.pre = [optree.dict_insertion_ordered(e[1], namespace=GLOBAL if e[2] == '' else e[2])
                        for e in (*history, ev) if e[0] == 'enter']
        try:
            for h in history:
                self._apply(cms, h)
            outcome = self._apply(cms, ev)
            if outcome != expected:
                problems.append(('event-outcome', f'{ev}: {outcome} expected {expected}', f'{PROP}:event-outcome'))
            got, want = self.observe(), self.predict(dst)
            for ns in OBS_NS:
                for k in want[ns]:
                    if got[ns][k] != want[ns][k]:
                        problems.append((f'observation:{k}',
                                         f'after {[*history, ev]} in namespace {ns!r}: {k} = {got[ns][k]!r}, '
                                         f'model (S={sorted(dst[0])}) predicts {want[ns][k]!r}',
                                         f'{PROP}:observation:{k}'))
        finally:
            while cms:
                try:
                    next(cms.pop())
                except Exception:  # noqa: BLE001
                    pass
            for ns in NSS:
                if _C.is_dict_insertion_ordered(ns, inherit_global_namespace=False):
                    if not dst[1] or True:
                        _C.set_dict_insertion_ordered(False, ns)
        # after unwinding everything the initial vector must be back
        got0, want0 = self.observe(), self.predict(self.initial())
        if got0 != want0:
            problems.append(('unwound-state', f'after unwinding {[*history, ev]}: not the initial modes',
                             f'{PROP}:unwound-state'))
        return problems


def run_shard(ctx):
    nesting, depth, hlen = (3, 6, 6) if ctx.tier == 'quick' else (4, 8, 8)
    explore.bfs(ctx, ModeSystem(nesting, exit_kinds=('exit', 'raise', 'raise-base', 'close')), depth, label=f'bfs-nest{nesting}')
    explore.bfs(ctx, ModeSystem(nesting, precreate=True), depth, label=f'bfs-precreated-nest{nesting}')
    explore.all_histories(ctx, ModeSystem(3, observe_event=True), hlen, label=f'all-histories-len{hlen}')


def replay(case, ctx):
    c = case['case']
    sysm = ModeSystem(8, exit_kinds=('exit', 'raise', 'raise-base', 'close'), observe_event=True,
                      precreate='precreated' in c.get('label', ''))
    state = sysm.initial()
    hist = [tuple(e) for e in c['history']]
    for h in hist:
        state, _ = sysm.step(state, h)
    ev = tuple(c['event'])
    dst, expected = sysm.step(state, ev)
    ctx.count()
    for oracle, detail, key in sysm.execute(tuple(hist), ev, state, dst, expected):
        ctx.violation(oracle, key, c, detail)
