"""C14  Treespecs are immutable values independent of their source tree and registry (E2 + E1)."""

from __future__ import annotations

import copy
import gc
import pickle
import sys
import weakref
from collections import OrderedDict, defaultdict, deque

import optree

from mc import e1, explore, gen
from mc import universe as un
from mc.e1 import outcome_of
from mc.oracle import why_different
from mc.universe import Leaf

PROP = 'C14'


# =============================================================================================
# Part A: no operation mutates its inputs


def snap(o, U, depth=0):
    """Deep snapshot: identity, type, size, key order, and children of every container."""
    t = type(o)
    if t in (tuple, list, deque) or t in U.nt_types or t in U.ss_types:
        extra = o.maxlen if t is deque else None
        return (id(o), t, extra, tuple(snap(c, U, depth + 1) for c in o))
    if t in (dict, OrderedDict, defaultdict, un.DictSub):
        extra = o.default_factory if t is defaultdict else None
        return (id(o), t, extra, tuple((k, snap(v, U, depth + 1)) for k, v in o.items()))
    if t in (un.CG, un.CN, un.CS):
        return (id(o), t, getattr(o, 'meta', None), tuple(snap(c, U, depth + 1) for c in o.children))
    if t is un.CD:
        return (id(o), t, None, tuple((k, snap(v, U, depth + 1)) for k, v in o.data.items()))
    if t is U.DC or t is U.DC2:
        return (id(o), t, o.m, (snap(o.a, U), snap(o.b, U)))
    if t is U.P:
        return (id(o), t, id(o.func), (snap(o.args, U), snap(o.keywords, U)))
    return (id(o), t)


def spec_vector(s):
    return (repr(s), s.num_leaves, s.num_nodes, s.num_children, tuple(s.paths()), tuple(map(repr, s.accessors())),
            tuple(s.entries()), tuple(map(repr, s.children())), hash(s), s.none_is_leaf, s.namespace, s.kind, s.type)


def operations(kw):  # noqa: C901
    """(name, fn(tree, rest, leaves, spec, rspec)) -- every public operation that takes trees, leaf
    sequences or treespecs."""
    nkw = {'none_is_leaf': kw['none_is_leaf'], 'namespace': kw['namespace']}
    ident = lambda *a: a[0]  # noqa: E731
    ops = [
        ('tree_flatten', lambda t, r, l, s, rs: optree.tree_flatten(t, **kw)),
        ('tree_flatten_with_path', lambda t, r, l, s, rs: optree.tree_flatten_with_path(t, **kw)),
        ('tree_flatten_with_accessor', lambda t, r, l, s, rs: optree.tree_flatten_with_accessor(t, **kw)),
        ('tree_iter', lambda t, r, l, s, rs: list(optree.tree_iter(t, **kw))),
        ('tree_leaves', lambda t, r, l, s, rs: optree.tree_leaves(t, **kw)),
        ('tree_structure', lambda t, r, l, s, rs: optree.tree_structure(t, **kw)),
        ('tree_paths', lambda t, r, l, s, rs: optree.tree_paths(t, **kw)),
        ('tree_accessors', lambda t, r, l, s, rs: optree.tree_accessors(t, **kw)),
        ('tree_is_leaf', lambda t, r, l, s, rs: optree.tree_is_leaf(t, **kw)),
        ('all_leaves', lambda t, r, l, s, rs: optree.all_leaves(l, **kw)),
        ('tree_unflatten', lambda t, r, l, s, rs: optree.tree_unflatten(s, l)),
        ('spec.unflatten', lambda t, r, l, s, rs: s.unflatten(l)),
        ('tree_map', lambda t, r, l, s, rs: optree.tree_map(ident, t, r, **kw)),
        ('tree_map_', lambda t, r, l, s, rs: optree.tree_map_(ident, t, r, **kw)),
        ('tree_map_with_path', lambda t, r, l, s, rs: optree.tree_map_with_path(lambda p, x, y: x, t, r, **kw)),
        ('tree_map_with_path_', lambda t, r, l, s, rs: optree.tree_map_with_path_(lambda p, x, y: x, t, r, **kw)),
        ('tree_map_with_accessor', lambda t, r, l, s, rs: optree.tree_map_with_accessor(lambda p, x, y: x, t, r, **kw)),
        ('tree_map_with_accessor_', lambda t, r, l, s, rs: optree.tree_map_with_accessor_(lambda p, x, y: x, t, r, **kw)),
        ('tree_replace_nones', lambda t, r, l, s, rs: optree.tree_replace_nones(0, t, namespace=kw['namespace'])),
        ('tree_transpose_map', lambda t, r, l, s, rs: optree.tree_transpose_map(lambda x, y: (x, y), t, r, **kw)),
        ('tree_transpose', lambda t, r, l, s, rs: optree.tree_transpose(
            s, optree.tree_structure((0, 0), **nkw), optree.tree_map(lambda x: (x, x), t, **kw), is_leaf=kw['is_leaf'])),
        ('tree_broadcast_prefix', lambda t, r, l, s, rs: optree.tree_broadcast_prefix(t, r, **kw)),
        ('broadcast_prefix', lambda t, r, l, s, rs: optree.broadcast_prefix(t, r, **kw)),
        ('tree_broadcast_common', lambda t, r, l, s, rs: optree.tree_broadcast_common(t, r, **kw)),
        ('broadcast_common', lambda t, r, l, s, rs: optree.broadcast_common(t, r, **kw)),
        ('tree_broadcast_map', lambda t, r, l, s, rs: optree.tree_broadcast_map(ident, t, r, **kw)),
        ('tree_reduce', lambda t, r, l, s, rs: optree.tree_reduce(lambda a, x: a, t, 0, **kw)),
        ('tree_sum', lambda t, r, l, s, rs: optree.tree_sum(t, (), **kw)),
        ('tree_max', lambda t, r, l, s, rs: optree.tree_max(t, key=id, default=None, **kw)),
        ('tree_min', lambda t, r, l, s, rs: optree.tree_min(t, key=id, default=None, **kw)),
        ('tree_all', lambda t, r, l, s, rs: optree.tree_all(t, **kw)),
        ('tree_any', lambda t, r, l, s, rs: optree.tree_any(t, **kw)),
        ('tree_flatten_one_level', lambda t, r, l, s, rs: optree.tree_flatten_one_level(t, **kw)),
        ('prefix_errors', lambda t, r, l, s, rs: optree.prefix_errors(t, r, **kw)),
        ('flatten_up_to', lambda t, r, l, s, rs: s.flatten_up_to(r)),
        ('traverse', lambda t, r, l, s, rs: s.traverse(l, ident, ident)),
        ('walk', lambda t, r, l, s, rs: s.walk(l, lambda ty, d, c: c, ident)),
        ('compose', lambda t, r, l, s, rs: s.compose(rs)),
        ('transform', lambda t, r, l, s, rs: s.transform(ident, ident)),
        ('broadcast_to_common_suffix', lambda t, r, l, s, rs: s.broadcast_to_common_suffix(rs)),
        ('is_prefix', lambda t, r, l, s, rs: (s.is_prefix(rs), s <= rs, s < rs, s >= rs, s > rs, s.is_suffix(rs))),
        ('eq-hash-repr', lambda t, r, l, s, rs: (s == rs, s != rs, hash(s), repr(s), str(rs))),
        ('pickle', lambda t, r, l, s, rs: pickle.loads(pickle.dumps(s))),  # noqa: S301
        ('inspection', lambda t, r, l, s, rs: (s.paths(), s.accessors(), s.entries(), s.children(), s.one_level(),
                                             [s.child(i) for i in range(s.num_children)],
                                             [s.entry(i) for i in range(s.num_children)], s.type, s.kind)),
        ('treespec_from_collection', lambda t, r, l, s, rs: optree.treespec_from_collection((s, rs), **nkw)),
        ('treespec_tuple', lambda t, r, l, s, rs: optree.treespec_tuple([s, rs], **nkw)),
        ('treespec_dict', lambda t, r, l, s, rs: optree.treespec_dict({'b': s, 'a': rs}, **nkw)),
    ]
    return ops


def part_a(ctx, tree, leaves0, dsl, cfg):
    U, _ = e1.universe()
    kw = e1.kw_of(cfg)
    flat = e1.ref_flatten(tree, cfg)
    if e1.nontrivial(flat.desc):
        ctx.cls(e1.class_key(flat, cfg))
    if any(t and t[-1][1] is U.P for t in flat.typed):
        return
    rest, _ = gen.build(gen.substitute_leaves(dsl, ['tuple', None, ['L', 'L']]), U)
    leaves, spec = optree.tree_flatten(tree, **kw)
    rspec = optree.tree_structure(rest, **kw)
    leaves_before = list(leaves)
    before = (snap(tree, U), snap(rest, U), spec_vector(spec), spec_vector(rspec))
    case = {'tree': dsl, 'cfg': cfg}
    for name, op in operations(kw):
        ctx.count()
        ctx.extra['partA-operations'] += 1
        r = outcome_of(lambda op=op: op(tree, rest, leaves, spec, rspec))
        del r
        after = (snap(tree, U), snap(rest, U), spec_vector(spec), spec_vector(rspec))
        if after != before or len(leaves) != len(leaves_before) or any(a is not b for a, b in zip(leaves, leaves_before)):
            which = [n for n, a, b in zip(('tree', 'rest', 'treespec', 'other treespec'), before, after) if a != b]
            ctx.violation(f'input-mutated:{name}', f'{PROP}:input-mutated', dict(case, op=name),
                          f'{name} mutated {which or "the leaves list"}')
            before = after
            leaves_before = list(leaves)
    part_a_failing(ctx, tree, dsl, cfg, spec, kw)


def bad_partners(dsl, U, limit=6):
    """Mismatching partner trees (one-edit near misses and their dict-kind / reversed-key variants)."""
    out = []
    for path in list(gen.node_paths(dsl))[:3]:
        if gen.get_at(dsl, path) == 'L':
            continue
        for label, new in gen.local_edits(dsl, path):
            out.append((label, new))
            out.append((label + '+variant', gen.dict_variant(new)))
            if len(out) >= limit:
                return out
    return out


def part_a_failing(ctx, tree, dsl, cfg, spec, kw):
    """Operations that FAIL (mismatching operand) must leave every operand untouched as well."""
    U, _ = e1.universe()
    for label, bdsl in bad_partners(dsl, U):
        bad, _ = gen.build(bdsl, U)
        bspec = optree.tree_structure(bad, **kw)
        before = (snap(tree, U), snap(bad, U), spec_vector(spec), spec_vector(bspec))
        ops = (
            ('broadcast_to_common_suffix', lambda: spec.broadcast_to_common_suffix(bspec)),
            ('broadcast_to_common_suffix-rev', lambda: bspec.broadcast_to_common_suffix(spec)),
            ('is_prefix', lambda: (spec.is_prefix(bspec), bspec.is_prefix(spec), spec <= bspec, spec >= bspec)),
            ('flatten_up_to', lambda: spec.flatten_up_to(bad)),
            ('flatten_up_to-rev', lambda: bspec.flatten_up_to(tree)),
            ('tree_map', lambda: optree.tree_map(lambda x, y: x, tree, bad, **kw)),
            ('tree_broadcast_common', lambda: optree.tree_broadcast_common(tree, bad, **kw)),
            ('tree_broadcast_map', lambda: optree.tree_broadcast_map(lambda x, y: x, bad, tree, **kw)),
            ('prefix_errors', lambda: optree.prefix_errors(tree, bad, **kw)),
            ('compose', lambda: spec.compose(bspec)),
            ('eq', lambda: (spec == bspec, hash(bspec))),
        )
        for name, op in ops:
            ctx.count()
            ctx.extra['partA-failing-operations'] += 1
            r = outcome_of(op)
            del r
            after = (snap(tree, U), snap(bad, U), spec_vector(spec), spec_vector(bspec))
            if after != before:
                which = [n for n, a, b in zip(('tree', 'other tree', 'treespec', 'other treespec'), before, after) if a != b]
                ctx.violation(f'operand-mutated:{name}', f'{PROP}:operand-mutated-by-failing-operation',
                              {'tree': dsl, 'cfg': cfg, 'op': name, 'other': bdsl, 'other_label': label},
                              f'{name} (mismatching operand: {label}) mutated {which}: '
                              f'{[b for a, b in zip(before, after) if a != b][0]!r}'[:700])
                before = after


# =============================================================================================
# Part B: histories


class Holder:
    """Custom-node metadata that can point back at the treespec (reference cycle)."""

    def __init__(self):
        self.spec = None

    def __eq__(self, other):
        return isinstance(other, Holder)

    def __hash__(self):
        return 7


SCENARIOS = ('list', 'tuple-nested', 'dict', 'odict', 'ddict', 'deque', 'namedtuple', 'custom-entries',
             'custom-in-dict', 'dict-in-custom', 'none-mixed', 'dataclass')


class World:
    def __init__(self, scenario):
        class CX:
            def __init__(self, children, meta='m'):
                self.children = list(children)
                self.meta = meta

        def fl(o):
            return list(o.children), o.meta, tuple(f'k{i}' for i in range(len(o.children)))

        def un_(meta, ch):
            return CX(ch, meta)

        def fl2(o):
            return list(reversed(o.children)), ('other', o.meta), None

        def un2(meta, ch):
            return CX(list(reversed(list(ch))), meta[1])

        def fl3(o):  # same metadata, same entries, same arity as `fl` -- only the order of the children differs
            return list(reversed(o.children)), o.meta, tuple(f'k{i}' for i in range(len(o.children)))

        def un3(meta, ch):
            return CX(list(reversed(list(ch))), meta)

        self.fl3, self.un3 = fl3, un3
        self.CX, self.fl, self.un, self.fl2, self.un2 = CX, fl, un_, fl2, un2
        self.ns = 'ns14'
        optree.register_pytree_node(CX, fl, un_, namespace=self.ns)
        self.registered = True
        self.leaves = [Leaf(i) for i in range(6)]
        L = self.leaves
        self.scenario = scenario
        if scenario == 'list':
            self.tree = [L[0], [L[1], L[2]], L[3]]
        elif scenario == 'tuple-nested':
            self.tree = (L[0], [L[1]], {'k': L[2]})
        elif scenario == 'dict':
            self.tree = {'b': L[0], 'a': [L[1], L[2]], 'c': L[3]}
        elif scenario == 'odict':
            self.tree = OrderedDict([('z', L[0]), ('y', [L[1]]), ('x', L[2])])
        elif scenario == 'ddict':
            self.tree = defaultdict(list, {'q': L[0], 'p': [L[1]]})
        elif scenario == 'deque':
            self.tree = deque([L[0], [L[1]], L[2]], maxlen=5)
        elif scenario == 'namedtuple':
            self.tree = [un.NT2(L[0], [L[1]]), L[2]]
        elif scenario == 'custom-entries':
            self.tree = CX([L[0], [L[1], L[2]]])
        elif scenario == 'custom-in-dict':
            self.tree = {'b': CX([L[0], L[1]]), 'a': L[2]}
        elif scenario == 'dict-in-custom':
            self.tree = CX([{'b': L[0], 'a': L[1]}, L[2]], meta=('x', 1))
        elif scenario == 'none-mixed':
            self.tree = [None, (L[0], None), {'k': None, 'j': L[1]}]
        elif scenario == 'dataclass':
            e1.universe()
            self.tree = [e1.universe()[0].DC(L[0], [L[1]], 'mm'), L[2]]
            self.ns = 'ns'
        self.kw = {'namespace': self.ns}
        flat_leaves, self.spec = optree.tree_flatten(self.tree, **self.kw)
        self.n = len(flat_leaves)
        self.wleaves = [weakref.ref(x) for x in self.leaves]
        self.returned = {}
        del flat_leaves

    def expected_tree(self, fresh):
        """What unflatten(fresh) must build, stated independently for each scenario."""
        F = fresh
        s = self.scenario
        CX = self.CX
        if s == 'list':
            return [F[0], [F[1], F[2]], F[3]]
        if s == 'tuple-nested':
            return (F[0], [F[1]], {'k': F[2]})
        if s == 'dict':  # sorted flatten order a, b, c ; original insertion order b, a, c
            return {'b': F[2], 'a': [F[0], F[1]], 'c': F[3]}
        if s == 'odict':
            return OrderedDict([('z', F[0]), ('y', [F[1]]), ('x', F[2])])
        if s == 'ddict':
            return defaultdict(list, {'q': F[1], 'p': [F[0]]})
        if s == 'deque':
            return deque([F[0], [F[1]], F[2]], maxlen=5)
        if s == 'namedtuple':
            return [un.NT2(F[0], [F[1]]), F[2]]
        if s == 'custom-entries':
            return CX([F[0], [F[1], F[2]]])
        if s == 'custom-in-dict':
            return {'b': CX([F[1], F[2]]), 'a': F[0]}
        if s == 'dict-in-custom':
            return CX([{'b': F[1], 'a': F[0]}, F[2]], meta=('x', 1))
        if s == 'none-mixed':
            return [None, (F[0], None), {'k': None, 'j': F[1]}]
        if s == 'dataclass':
            return [e1.universe()[0].DC(F[0], [F[1]], 'mm'), F[2]]
        raise AssertionError(s)

    def same(self, a, b):
        """Structural equality incl. key order, for this world's types."""
        if type(a) is not type(b):
            return False
        if isinstance(a, self.CX):
            return a.meta == b.meta and len(a.children) == len(b.children) and all(
                self.same(x, y) for x, y in zip(a.children, b.children))
        if isinstance(a, (list, tuple, deque)):
            if isinstance(a, deque) and a.maxlen != b.maxlen:
                return False
            return len(a) == len(b) and all(self.same(x, y) for x, y in zip(a, b))
        if isinstance(a, dict):
            if isinstance(a, defaultdict) and a.default_factory is not b.default_factory:
                return False
            return list(a) == list(b) and all(self.same(a[k], b[k]) for k in a)
        if hasattr(a, '__dataclass_fields__'):
            return self.same(a.a, b.a) and self.same(a.b, b.b) and a.m == b.m
        return a is b

    def observe(self):
        s = self.spec
        fresh = [Leaf(100 + i) for i in range(self.n)]
        got = s.unflatten(fresh)
        return {
            'repr': repr(s).replace(self.CX.__name__, 'CX'),
            'counts': (s.num_leaves, s.num_nodes, s.num_children, len(s)),
            'paths': tuple(s.paths()),
            'accessor-paths': tuple(a.path for a in s.accessors()),
            'entries': tuple(s.entries()),
            'children': tuple(repr(c) for c in s.children()),
            'child0': repr(s.child(0)),
            'one_level': repr(s.one_level()),
            'hash': hash(s),
            'eq-self': s == s and (self.registered is not True or (copy.copy(s) == s and hash(copy.deepcopy(s)) == hash(s))),
            'unflatten': self.same(got, self.expected_tree(fresh)),
            # matching *another* tree against the spec consults the live registry by design
            'flatten_up_to': self._flatten_up_to_ok(s, got, fresh),
        }

    def _flatten_up_to_ok(self, s, got, fresh):
        """Matching *another* tree against the spec consults the live registry by design: with the original registration
        it returns the leaves in the treespec's order; after unregister / re-register it may refuse (ValueError) but
        must never answer with a different order."""
        try:
            r = s.flatten_up_to(got)
        except ValueError:
            return self.registered is not True
        return tuple(map(id, r)) == tuple(map(id, fresh))

    def registered_original(self):
        return self.registered == 'orig' or self.registered is True

    def cleanup(self):
        try:
            optree.unregister_pytree_node(self.CX, namespace='ns14')
        except Exception:  # noqa: BLE001
            pass


EVENTS = (
    ('mut-src', 'grow'), ('mut-src', 'shrink'), ('mut-src', 'clear'), ('mut-src', 'reorder'), ('mut-src', 'inner'),
    ('mut-ret', 'paths'), ('mut-ret', 'accessors'), ('mut-ret', 'entries'), ('mut-ret', 'children'),
    ('mut-ret', 'leaves'), ('mut-ret', 'path-tuple'),
    ('unregister',), ('reregister-other',), ('reregister-same-meta',), ('del-tree',), ('gc',),
)


class SpecSystem(explore.System):
    name = 'treespec-independence'

    def __init__(self, scenario):
        self.scenario = scenario

    def initial(self):
        return (self.scenario, frozenset(), 'orig', True)  # (scenario, applied effects, registration, tree alive)

    def events(self, state):
        _, eff, reg, alive = state
        evs = []
        for e in EVENTS:
            if e[0] == 'mut-src' and not alive:
                continue
            if e[0] == 'unregister' and reg == 'none':
                continue
            if e[0] in ('reregister-other', 'reregister-same-meta') and reg != 'none':
                continue
            if e[0] == 'del-tree' and not alive:
                continue
            evs.append(e)
        return evs

    def step(self, state, ev):
        sc, eff, reg, alive = state
        if ev[0] == 'unregister':
            reg = 'none'
        elif ev[0] == 'reregister-other':
            reg = 'other'
        elif ev[0] == 'reregister-same-meta':
            reg = 'same-meta'
        elif ev[0] == 'del-tree':
            alive = False
        eff = eff | {ev}
        return (sc, eff, reg, alive), 'ok'

    def _apply(self, w, ev):  # noqa: C901, PLR0912
        if ev[0] == 'mut-src':
            t = w.tree
            target = t
            if ev[1] == 'inner':
                # mutate the first mutable container below the root
                stack = [t]
                target = None
                while stack:
                    x = stack.pop(0)
                    kids = x.children if isinstance(x, w.CX) else (list(x.values()) if isinstance(x, dict) else (
                        list(x) if isinstance(x, (list, tuple, deque)) else ([x.a, x.b] if hasattr(x, '__dataclass_fields__') else [])))
                    for k in kids:
                        if isinstance(k, (list, dict, deque, w.CX)) and k is not t:
                            target = k
                            break
                        stack.append(k)
                    if target is not None:
                        break
                if target is None:
                    return
                how = 'grow'
            else:
                how = ev[1]
            if isinstance(target, tuple):
                return
            seq = target.children if isinstance(target, w.CX) else target
            if hasattr(target, '__dataclass_fields__'):
                target.a = Leaf(99) if how != 'clear' else None
                return
            if isinstance(seq, (list, deque)):
                if how == 'grow':
                    seq.append(Leaf(99))
                elif how == 'shrink' and len(seq):
                    seq.pop()
                elif how == 'clear':
                    seq.clear()
                elif how == 'reorder':
                    seq.reverse()
            elif isinstance(seq, dict):
                if how == 'grow':
                    seq['zz_new'] = Leaf(99)
                elif how == 'shrink' and seq:
                    del seq[next(iter(seq))]
                elif how == 'clear':
                    seq.clear()
                elif how == 'reorder' and seq:
                    k = next(iter(seq))
                    if isinstance(seq, OrderedDict):
                        seq.move_to_end(k)
                    else:
                        v = seq.pop(k)
                        seq[k] = v
        elif ev[0] == 'mut-ret':
            s = w.spec
            what = ev[1]
            if what == 'leaves':
                if w.tree is None:
                    return
                lst = optree.tree_leaves(w.tree, **w.kw)
            elif what == 'path-tuple':
                lst = s.paths()
                lst[:] = [()] * len(lst)
                return
            else:
                lst = getattr(s, what)()
            again = getattr(s, what)() if what != 'leaves' else None
            if again is not None and again is lst:
                raise AssertionError(f'{what}() handed out the same list object twice')
            try:
                lst.append('junk')
                lst[0] = 'junk'
                lst.reverse()
                lst.clear()
            except Exception:  # noqa: BLE001
                pass
        elif ev[0] == 'unregister':
            optree.unregister_pytree_node(w.CX, namespace='ns14')
            w.registered = 'none'
        elif ev[0] == 'reregister-other':
            optree.register_pytree_node(w.CX, w.fl2, w.un2, namespace='ns14')
            w.registered = 'other'
        elif ev[0] == 'reregister-same-meta':
            optree.register_pytree_node(w.CX, w.fl3, w.un3, namespace='ns14')
            w.registered = 'same-meta'
        elif ev[0] == 'del-tree':
            w.tree = None
            w.leaves = None
        elif ev[0] == 'gc':
            gc.collect()

    def execute(self, history, ev, src, dst, expected):
        problems = []
        w = World(self.scenario)
        try:
            initial = w.observe()
            for h in history:
                self._apply(w, h)
            try:
                self._apply(w, ev)
            except AssertionError as ex:
                problems.append(('fresh-list', str(ex), f'{PROP}:inspection-list-not-fresh'))
            got = w.observe()
            for k, v in initial.items():
                if got[k] != v:
                    problems.append((f'spec-changed:{k}', f'{self.scenario}: after {[*history, ev]}: {k} = {got[k]!r}, '
                                     f'initially {v!r}', f'{PROP}:spec-changed:{k}'))
            if not dst[3]:
                gc.collect()
                alive = [i for i, r in enumerate(w.wleaves) if r() is not None]
                if alive:
                    problems.append(('leaf-kept-alive', f'{self.scenario}: after {[*history, ev]} leaves {alive} are still '
                                     f'alive although tree and leaves were dropped', f'{PROP}:leaf-kept-alive'))
        finally:
            w.cleanup()
        return problems


class CallableHolder(Holder):
    def __call__(self):
        return []


GC_CARRIERS = ('custom-meta', 'custom-entries', 'ddict-factory', 'dict-key', 'odict-key', 'ddict-key',
               'namedtuple-class', 'iterator-root')
GC_POSITIONS = ('root', 'in-list', 'in-custom', 'in-dict')
GC_LINKS = ('spec', 'child-spec', 'composed-spec', 'list-of-specs')


def gc_cases():
    out = []
    for carrier in GC_CARRIERS:
        for arity in (0, 1, 2):
            if carrier in ('dict-key', 'odict-key', 'ddict-key', 'custom-entries') and arity == 0:
                continue
            for pos in GC_POSITIONS:
                for link in GC_LINKS:
                    if carrier == 'iterator-root' and (pos != 'root' or link != 'spec'):
                        continue
                    out.append({'gc_cycle': carrier, 'arity': arity, 'position': pos, 'link': link})
    return out


def gc_cycle(ctx, c):
    """A treespec reachable only through a reference cycle that passes through node metadata
    (custom metadata / entries, default_factory, dict keys, namedtuple class) is reclaimed."""
    from collections import namedtuple  # noqa: PLC0415

    ctx.count()
    ctx.cls(tuple(sorted(c.items())))
    w = World('custom-entries')
    try:
        carrier, arity, pos, link = c['gc_cycle'], c['arity'], c['position'], c['link']
        kids = [Leaf(i) for i in range(arity)]
        h = CallableHolder()
        if carrier == 'iterator-root':
            box = [Leaf(0)]
            it = optree.tree_iter(box)
            box.append(it)  # the tree refers to its own iterator
            hh = Holder()
            box.append(hh)
            wr = weakref.ref(hh)
            next(it)
            del box, it, hh
            gc.collect()
            if wr() is not None:
                ctx.violation('gc-cycle', f'{PROP}:gc-cycle-not-collected', c, 'tree_iter in a cycle with its tree survived gc')
            return
        if carrier == 'custom-meta':
            node = w.CX(kids, meta=h)
        elif carrier == 'custom-entries':
            class CE:
                def __init__(self, ch):
                    self.ch = ch
            ents = tuple(CallableHolder() for _ in kids)
            h = ents[0]
            optree.register_pytree_node(CE, lambda o: (o.ch, None, ents), lambda m, ch: CE(list(ch)), namespace='ns14')
            node = CE(kids)
            w.extra_unreg = CE
        elif carrier == 'ddict-factory':
            node = defaultdict(h, {f'k{i}': k for i, k in enumerate(kids)})
        elif carrier in ('dict-key', 'odict-key', 'ddict-key'):
            keys = [CallableHolder() for _ in kids]
            h = keys[-1]
            items = list(zip(keys, kids))
            node = dict(items) if carrier == 'dict-key' else OrderedDict(items) if carrier == 'odict-key' else defaultdict(None, items)
        else:
            NT = namedtuple('NTgc', [f'f{i}' for i in range(arity)])  # noqa: PYI024
            NT.holder = h
            node = NT(*kids)
            del NT
        tree = {'root': node, 'in-list': [Leaf(9), node], 'in-custom': w.CX([node, Leaf(9)]), 'in-dict': {'z': node}}[pos]
        spec = optree.tree_structure(tree, namespace='ns14')
        target = {'spec': spec, 'child-spec': spec.child(0) if spec.num_children else spec,
                  'composed-spec': spec.compose(spec) if spec.num_leaves else spec,
                  'list-of-specs': [spec, spec.one_level() or spec]}[link]
        h.spec = target
        wr = weakref.ref(h)
        del h, tree, spec, node, target, kids
        if carrier in ('dict-key', 'odict-key', 'ddict-key'):
            del keys, items
        if carrier == 'custom-entries':
            optree.unregister_pytree_node(w.extra_unreg, namespace='ns14')
            w.extra_unreg = None
            del ents, CE
        gc.collect()
        if wr() is not None:
            ctx.violation('gc-cycle', f'{PROP}:gc-cycle-not-collected', c,
                          f'treespec in a reference cycle through {carrier} (arity {arity}, {pos}, {link}) survived gc.collect()')
        ctx.outcome(f'gc-cycle:{carrier}')
    finally:
        if getattr(w, 'extra_unreg', None) is not None:
            try:
                optree.unregister_pytree_node(w.extra_unreg, namespace='ns14')
            except Exception:  # noqa: BLE001
                pass
        w.cleanup()


def gc_cycles(ctx):
    for i, c in enumerate(gc_cases()):
        if ctx.mine(i):
            gc_cycle(ctx, c)


class Touchy:
    """Key / metadata object whose __repr__ / __hash__ / __eq__ raise while `armed` names them."""

    armed = ()

    def __init__(self, v):
        self.v = v

    def __repr__(self):
        if 'repr' in Touchy.armed:
            raise RuntimeError('repr fails')
        return f'Touchy({self.v})'

    def __hash__(self):
        if 'hash' in Touchy.armed:
            raise RuntimeError('hash fails')
        return hash(('Touchy', self.v))

    def __eq__(self, other):
        if 'eq' in Touchy.armed:
            raise RuntimeError('eq fails')
        return isinstance(other, Touchy) and self.v == other.v

    def __lt__(self, other):
        return self.v < other.v


def self_failing(ctx):
    """A treespec operation that fails inside user code reached from the treespec itself (key / metadata __repr__,
    __hash__, __eq__) leaves the treespec -- and a treespec created afterwards -- exactly as it was."""
    import pickle  # noqa: PLC0415
    from collections import OrderedDict, defaultdict  # noqa: PLC0415

    U, _ = e1.universe()
    carriers = {
        'dict': lambda: {Touchy(1): Leaf(0), Touchy(0): [Leaf(1)]},
        'odict': lambda: OrderedDict([(Touchy(1), Leaf(0)), (Touchy(0), (Leaf(1),))]),
        'ddict': lambda: defaultdict(list, {Touchy(1): Leaf(0)}),
        'custom-meta': lambda: un.CN([Leaf(0), Leaf(1)], meta=Touchy(5)),
        'nested': lambda: [{Touchy(1): {Touchy(2): Leaf(0)}}, Leaf(1)],
    }
    for cname, mk in carriers.items():
        for arm in ('repr', 'hash', 'eq'):
            for opname in ('repr', 'str', 'hash', 'eq', 'pickle', 'paths', 'child-repr', 'compose-repr', 'set-member'):
                tree = mk()
                if tree is None:
                    continue
                ns = 'ns' if cname == 'custom-meta' else ''
                spec = optree.tree_structure(tree, namespace=ns)
                other = optree.tree_structure(mk(), namespace=ns)
                before = spec_vector(spec)
                ops = {
                    'repr': lambda: repr(spec), 'str': lambda: str(spec), 'hash': lambda: hash(spec),
                    'eq': lambda: spec == other, 'pickle': lambda: pickle.loads(pickle.dumps(spec)),  # noqa: S301
                    'paths': lambda: (spec.paths(), spec.accessors()), 'child-repr': lambda: [repr(c) for c in spec.children()],
                    'compose-repr': lambda: repr(spec.compose(other)), 'set-member': lambda: spec in {other},
                }
                ctx.count()
                ctx.cls(('self-failing', cname, arm, opname))
                Touchy.armed = (arm,)
                try:
                    r = outcome_of(ops[opname])
                finally:
                    Touchy.armed = ()
                after = spec_vector(spec)
                case = {'self_failing': cname, 'armed': arm, 'op': opname}
                ctx.outcome(f'self-failing:{r[0]}')
                if after != before:
                    diff = [(a, b) for a, b in zip(before, after) if a != b][0]
                    ctx.violation('self-failing-operation', f'{PROP}:treespec-changed-by-failing-operation', case,
                                  f'{opname} with {arm} raising ({r[0]}): treespec vector changed: {diff!r}'[:600])
                del spec, other
                again = spec_vector(optree.tree_structure(mk(), namespace=ns))
                if again[0] != before[0]:
                    ctx.violation('self-failing-operation', f'{PROP}:later-treespec-affected-by-failed-operation', case,
                                  f'a treespec made after the failed {opname}: {again[0]!r} vs {before[0]!r}')


def run_shard(ctx):
    if ctx.shard == 0:
        self_failing(ctx)
    hlen = 3 if ctx.tier == 'quick' else 4
    for sc in SCENARIOS:
        explore.all_histories(ctx, SpecSystem(sc), hlen, label=sc)
    gc_cycles(ctx)
    preds = ['none', 'tuple_or_none']
    modes = ['sorted', 'ins_ns']
    e1.drive(ctx, ctx.tier, lambda tree, leaves, dsl, cfg: part_a(ctx, tree, leaves, dsl, cfg),
             profile='tiny', cfgs=e1.configs(ctx.tier, predicates=preds, modes=modes, namespaces=['', 'ns']))


def replay(case, ctx):
    c = case['case']
    if 'self_failing' in c:
        self_failing(ctx)
    elif 'gc_cycle' in c:
        gc_cycle(ctx, c)
    elif 'history' in c:
        sysm = SpecSystem(c['label'])
        state = sysm.initial()
        hist = [tuple(e) for e in c['history']]
        for h in hist:
            state, _ = sysm.step(state, h)
        ev = tuple(c['event'])
        dst, expected = sysm.step(state, ev)
        ctx.count()
        for oracle, detail, key in sysm.execute(tuple(hist), ev, state, dst, expected):
            ctx.violation(oracle, key, c, detail)
    else:
        e1.replay_case({'tree': c['tree'], 'cfg': c['cfg']},
                       lambda tree, leaves, dsl, cfg: part_a(ctx, tree, leaves, dsl, cfg))


_ = why_different
