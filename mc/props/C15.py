"""C15  A failing user callback fails the operation cleanly (E3: single-fault enumeration)."""

from __future__ import annotations

import pickle
import sys
from collections import OrderedDict, defaultdict, deque

import optree

from mc import universe as un
from mc.e1 import outcome_of
from mc.faults import FAULT, Boom, refcounts, run_with_fault, settle
from mc.universe import Leaf

PROP = 'C15'
PY_ODICT_ITEMS_OPS = ('prefix_errors', 'tree_flatten_one_level')
NS = 'ns15'


class Key:
    __slots__ = ('v',)

    def __init__(self, v):
        self.v = v

    def __hash__(self):
        FAULT.point('key.__hash__')
        return hash(self.v)

    def __eq__(self, other):
        FAULT.point('key.__eq__')
        return isinstance(other, Key) and self.v == other.v

    def __lt__(self, other):
        FAULT.point('key.__lt__')
        if not isinstance(other, Key):
            return NotImplemented  # incomparable with foreign key types -> TypeError -> fallback sort
        return self.v < other.v

    def __repr__(self):
        return f'Key({self.v!r})'


class Meta:
    def __init__(self, v):
        self.v = v

    def __eq__(self, other):
        FAULT.point('meta.__eq__')
        return isinstance(other, Meta) and self.v == other.v

    def __hash__(self):
        FAULT.point('meta.__hash__')
        return hash(('Meta', self.v))

    def __repr__(self):
        FAULT.point('meta.__repr__')
        return f'Meta({self.v})'


class CX:
    def __init__(self, children, meta):
        self.children = list(children)
        self.meta = meta

    def __reduce__(self):
        return (CX, (self.children, self.meta))


def cx_flatten(o):
    FAULT.point('custom.flatten')
    return list(o.children), o.meta, tuple(f'k{i}' for i in range(len(o.children)))


def cx_unflatten(meta, children):
    FAULT.point('custom.unflatten')
    return CX(children, meta)


_registered = False


def ensure_registered():
    global _registered  # noqa: PLW0603
    if not _registered:
        optree.register_pytree_node(CX, cx_flatten, cx_unflatten, namespace=NS)
        _registered = True


def pred(x):
    FAULT.point('is_leaf')
    return type(x) is tuple and len(x) == 2 and type(x[0]) is Leaf and x[0].i == 99


SCENARIOS = ('dict-keys', 'custom-nested', 'odict-ddict', 'seq-mix', 'mixed-keys')


def _distinct_metas(o, out):
    # (module level on purpose: a closure over the World would form a reference cycle and delay its release)
    if isinstance(o, CX):
        o.meta = Meta(o.meta.v)
        out.append(o.meta)
        for c in o.children:
            _distinct_metas(c, out)
    elif isinstance(o, dict):
        for c in o.values():
            _distinct_metas(c, out)
    elif isinstance(o, (list, tuple, deque)):
        for c in o:
            _distinct_metas(c, out)


class World:
    def __init__(self, scenario):
        ensure_registered()
        FAULT.enabled = False
        L = [Leaf(i) for i in range(8)]
        self.leaves = L
        self.metas = [Meta(1), Meta(2), Meta(3)]
        self.keys = [Key('b'), Key('a'), Key('c')]
        m, k = self.metas, self.keys
        box = (Leaf(99), Leaf(98))
        self.box = box
        if scenario == 'dict-keys':
            self.tree = {k[0]: CX([L[0], (L[1], L[2])], m[0]), k[1]: [L[3], CX([L[4]], m[1])], k[2]: box}
        elif scenario == 'custom-nested':
            self.tree = CX([CX([L[0], {k[0]: L[1], k[1]: L[2]}], m[1]), L[3], box], m[0])
        elif scenario == 'odict-ddict':
            self.tree = OrderedDict([(k[0], defaultdict(list, {k[1]: L[0], k[2]: CX([L[1]], m[0])})), (k[1], L[2])])
        elif scenario == 'mixed-keys':
            # keys of several mutually incomparable types: the direct sort fails with TypeError and the
            # (type name, key) fallback sort compares the instrumented keys among themselves
            self.tree = {k[0]: L[0], 3: [L[1], box], k[1]: CX([L[2]], m[0]), 'z': L[3], k[2]: defaultdict(
                list, {k[0]: L[4], 2.5: L[5], k[1]: L[6]})}
        else:
            self.tree = [deque([L[0], CX([L[1]], m[0])], maxlen=4), un.NT2(L[2], CX([], m[1])), (L[3], None, box)]
        self.scenario = scenario
        self.kw = {'is_leaf': pred, 'namespace': NS}
        self.leaves_flat, self.spec = optree.tree_flatten(self.tree, **self.kw)
        self.rest = optree.tree_map(lambda x: (x, Leaf(50)), self.tree, **self.kw)
        # the custom nodes of `rest` carry EQUAL BUT DISTINCT metadata objects, so that matching rest against the
        # treespec has to call the user's metadata __eq__ (identical objects never reach it)
        self.rest_metas = []
        _distinct_metas(self.rest, self.rest_metas)
        self.rspec = optree.tree_structure(self.rest, **self.kw)
        self.inner = optree.tree_structure((0, [0]), namespace=NS)
        self.composed = optree.tree_map(lambda x: (x, [Leaf(60)]), self.tree, **self.kw)
        self.containers = []
        self._collect(self.tree)
        self._collect(self.rest)
        self.tracked = [*L, *self.metas, *self.rest_metas, *self.keys, box, *box, self.tree, self.rest, self.spec, self.rspec, self.inner,
                        self.composed, *self.containers, cx_flatten, cx_unflatten, pred, *self.leaves_flat]

    def _collect(self, o):
        if isinstance(o, CX):
            self.containers.append(o)
            self.containers.append(o.children)
            for c in o.children:
                self._collect(c)
        elif isinstance(o, dict):
            self.containers.append(o)
            for c in o.values():
                self._collect(c)
        elif isinstance(o, (list, tuple, deque)):
            self.containers.append(o)
            for c in o:
                self._collect(c)


def fpoint(name):
    def f(*a):
        FAULT.point(name)
        return a[0] if len(a) == 1 else a[-1] if name.endswith(':last') else a[0]
    return f


def operations(w):  # noqa: C901
    kw = w.kw
    t, r, s, rs = w.tree, w.rest, w.spec, w.rspec
    f1 = fpoint('mapped-f')

    def fpath(p, x, *rest):
        FAULT.point('mapped-f')
        return x

    ops = {
        'tree_flatten': lambda: optree.tree_flatten(t, **kw),
        'tree_flatten_with_path': lambda: optree.tree_flatten_with_path(t, **kw),
        'tree_flatten_with_accessor': lambda: optree.tree_flatten_with_accessor(t, **kw),
        'tree_leaves': lambda: optree.tree_leaves(t, **kw),
        'tree_iter': lambda: list(optree.tree_iter(t, **kw)),
        'tree_structure': lambda: optree.tree_structure(t, **kw),
        'tree_paths': lambda: optree.tree_paths(t, **kw),
        'tree_accessors': lambda: optree.tree_accessors(t, **kw),
        'tree_is_leaf': lambda: optree.tree_is_leaf(t, **kw),
        'all_leaves': lambda: optree.all_leaves([*w.leaves_flat, t], **kw),
        'tree_unflatten': lambda: optree.tree_unflatten(s, w.leaves_flat),
        'tree_map': lambda: optree.tree_map(f1, t, r, **kw),
        'tree_map_': lambda: optree.tree_map_(f1, t, r, **kw),
        'tree_map_with_path': lambda: optree.tree_map_with_path(fpath, t, r, **kw),
        'tree_map_with_accessor': lambda: optree.tree_map_with_accessor(fpath, t, r, **kw),
        'tree_transpose': lambda: optree.tree_transpose(s, w.inner, w.composed, is_leaf=pred),
        'tree_transpose_map': lambda: optree.tree_transpose_map(lambda x: (FAULT.point('mapped-f'), (x, [x]))[1], t, **kw),
        'tree_broadcast_prefix': lambda: optree.tree_broadcast_prefix(t, r, **kw),
        'broadcast_prefix': lambda: optree.broadcast_prefix(t, r, **kw),
        'tree_broadcast_common': lambda: optree.tree_broadcast_common(t, r, **kw),
        'broadcast_common': lambda: optree.broadcast_common(t, r, **kw),
        'tree_broadcast_map': lambda: optree.tree_broadcast_map(f1, t, r, **kw),
        'tree_reduce': lambda: optree.tree_reduce(lambda a, x: (FAULT.point('reduce-f'), a)[1], t, 0, **kw),
        'tree_sum': lambda: optree.tree_sum(t, (), **kw),
        'tree_max': lambda: optree.tree_max(t, key=lambda x: (FAULT.point('key-f'), id(x))[1], **kw),
        'tree_max-default': lambda: optree.tree_max(t, default=None, key=lambda x: (FAULT.point('key-f'), id(x))[1], **kw),
        'tree_min-default': lambda: optree.tree_min(t, default=None, key=lambda x: (FAULT.point('key-f'), id(x))[1], **kw),
        'tree_min': lambda: optree.tree_min(t, key=lambda x: (FAULT.point('key-f'), -id(x))[1], **kw),
        'tree_all': lambda: optree.tree_all(t, **kw),
        'tree_any': lambda: optree.tree_any(t, **kw),
        'tree_reduce-noinit': lambda: optree.tree_reduce(lambda a, x: (FAULT.point('reduce-f'), a)[1], t, **kw),
        'tree_flatten_one_level': lambda: optree.tree_flatten_one_level(t, **kw),
        'prefix_errors': lambda: optree.prefix_errors(t, r, **kw),
        'flatten_up_to': lambda: s.flatten_up_to(r),
        'flatten_up_to-self': lambda: s.flatten_up_to(t),
        'traverse': lambda: s.traverse(w.leaves_flat, fpoint('f_node'), fpoint('f_leaf')),
        'walk': lambda: s.walk(w.leaves_flat, lambda ty, d, c: (FAULT.point('f_node'), c)[1], fpoint('f_leaf')),
        'transform': lambda: s.transform(fpoint('f_node'), fpoint('f_leaf')),
        'compose': lambda: s.compose(w.inner),
        'broadcast_to_common_suffix': lambda: s.broadcast_to_common_suffix(rs),
        'is_prefix': lambda: (s.is_prefix(rs), s <= rs, rs >= s, s < rs),
        'spec-eq': lambda: (s == rs, s == optree.tree_structure(t, **kw), s != rs),
        'spec-hash': lambda: hash(s),
        'spec-repr': lambda: repr(s),
        'pickle': lambda: pickle.loads(pickle.dumps(s)),  # noqa: S301
        'inspection': lambda: (s.paths(), s.accessors(), s.entries(), s.children(), s.one_level()),
        'treespec_from_collection': lambda: optree.treespec_from_collection(
            CX([s, rs], w.metas[2]), namespace=NS),
        'treespec_dict': lambda: optree.treespec_dict({w.keys[0]: s, w.keys[1]: rs}, namespace=NS),
    }
    return ops


def canon(x, depth=0):  # noqa: C901, PLR0911
    """Value-level rendering of an operation result (for 'behaves as if the failed call never
    happened')."""
    if isinstance(x, Leaf):
        return f'L{x.i}'
    if isinstance(x, optree.PyTreeSpec):
        FAULT.enabled = False
        return ('spec', x.num_leaves, x.num_nodes, tuple(map(str, x.paths())))
    if isinstance(x, optree.PyTreeAccessor):
        return ('acc', x.path.__len__())
    if isinstance(x, CX):
        return ('CX', id(x.meta), tuple(canon(c) for c in x.children))
    if isinstance(x, dict):
        return (type(x).__name__, tuple((id(k) if isinstance(k, Key) else k, canon(v)) for k, v in x.items()))
    if isinstance(x, (list, tuple, deque)):
        return (type(x).__name__, tuple(canon(c) for c in x))
    if isinstance(x, (int, str, bool, type(None))):
        return x
    if callable(x):
        return 'callable'
    return type(x).__name__


def fault_types(tier):
    """Exception types injected: the harness's own class plus builtin types that library code commonly catches
    for its own purposes (an `except ValueError:` around user callbacks would swallow a user's ValueError)."""
    quick = [Boom, ValueError, TypeError, KeyError]
    return quick if tier == 'quick' else [*quick, AttributeError, RuntimeError, IndexError, LookupError, OSError]


def run_op(ctx, scenario, opname):  # noqa: C901, PLR0912
    w = World(scenario)
    op = operations(w)[opname]
    case = {'scenario': scenario, 'op': opname}
    key = lambda o: f'{PROP}:{o}'  # noqa: E731
    # zero-deviation run: count K, record the baseline, make sure the refcount snapshot is stable
    before = refcounts(w.tracked)
    kind, val = run_with_fault(op, None)
    K = FAULT.count
    names = list(FAULT.log)
    if kind != 'ok':
        ctx.violation('baseline-raises', key('baseline-raises'), case, repr(val))
        return
    base = canon(val)
    del val
    settle()
    after = refcounts(w.tracked)
    ctx.count()
    if after != before:
        ctx.violation('baseline-refcount', key('refcount-without-fault'), case,
                      _refdiff(w, before, after))
        return
    ctx.outcome(f'K={min(K, 40)}')
    for exc, k in ((e, k) for e in fault_types(ctx.tier) for k in range(1, K + 1)):
        if exc is TypeError and names[k - 1] in ('key.__lt__', 'key.__eq__'):
            continue  # the property excludes it: TypeError from a key comparison (tuple comparison in the fallback
            # sort calls __eq__ before __lt__) means "incomparable keys"
        cs = dict(case, k=k, callback=names[k - 1], exception=exc.__name__)
        ctx.count()
        ctx.cls((scenario, opname, names[k - 1], sum(1 for n in names[:k] if n == names[k - 1]), exc.__name__))
        before = refcounts(w.tracked)
        kind, val = run_with_fault(op, k, exc)
        injected = FAULT.injected
        if injected is None:
            ctx.violation('nondeterministic-callback-count', f'{PROP}:harness', cs, f'fault {k} of {K} never fired')
            del val
            continue
        if kind == 'ok':
            ctx.violation('exception-swallowed', key(f'exception-swallowed:{names[k - 1]}'), cs,
                          f'{opname} returned {canon(val)!r} although {names[k - 1]} raised at invocation {k}')
        elif (isinstance(val, KeyError) and names[k - 1] == 'key.__hash__' and val.args and isinstance(val.args[0], Key)
              and scenario == 'odict-ddict' and opname in PY_ODICT_ITEMS_OPS):
            # CPython's own OrderedDict.items() iterator turns a failing key hash into KeyError(key);
            # these operations iterate the OrderedDict at Python level -- not optree's doing
            ctx.extra['cpython-odict-items-keyerror'] += 1
        elif val is not injected:
            chain = val.__cause__ is injected or val.__context__ is injected
            ctx.violation('exception-replaced', key(f'exception-replaced:{names[k - 1]}'), cs,
                          f'{opname}: got {val!r} (chained={chain}) instead of the injected exception object')
        val = None
        injected = None
        FAULT.injected = None
        settle()
        after = refcounts(w.tracked)
        if after != before:
            ctx.violation('refcount-after-fault', key('refcount-after-fault'), cs, _refdiff(w, before, after))
        # the same operation now behaves as if the failed call had never happened
        kind2, val2 = run_with_fault(op, None)
        if kind2 != 'ok' or canon(val2) != base or FAULT.count != K:
            ctx.violation('behaviour-after-fault', key('behaviour-after-fault'), cs,
                          f'{kind2}: {canon(val2) if kind2 == "ok" else val2!r} vs baseline {base!r}; callbacks {FAULT.count} vs {K}')
        del val2
        settle()
    if len(ctx.samples) < 4:
        ctx.sample({'scenario': scenario, 'op': opname, 'K': K, 'callbacks': names[:12]})


def _refdiff(w, before, after):
    out = []
    for o, b, a in zip(w.tracked, before, after):
        if a != b:
            out.append(f'{type(o).__name__}:{str(o)[:30]} {b}->{a}')
    return '; '.join(out[:8])


# ---- malformed flatten results and wrong leaf counts --------------------------------------------------
def malformed(ctx):
    from mc import e1  # noqa: PLC0415

    e1.universe()
    allowed = {'RuntimeError', 'ValueError', 'TypeError'}
    for mode in un.CM_MODES:
        for arity in (0, 1, 2):
            cm = un.CM([Leaf(i) for i in range(arity)], mode)
            tree = (Leaf(9), cm)
            good = (Leaf(9), un.CM([Leaf(i) for i in range(arity)], 'ok'))
            gspec = optree.tree_structure(good, namespace='ns')
            ops = {
                'flatten': lambda: optree.tree_flatten(tree, namespace='ns'),
                'with_path': lambda: optree.tree_flatten_with_path(tree, namespace='ns'),
                'iter': lambda: list(optree.tree_iter(tree, namespace='ns')),
                'with_accessor': lambda: optree.tree_flatten_with_accessor(tree, namespace='ns'),
                'leaves': lambda: optree.tree_leaves(tree, namespace='ns'),
                'structure': lambda: optree.tree_structure(tree, namespace='ns'),
                'paths': lambda: optree.tree_paths(tree, namespace='ns'),
                'accessors': lambda: optree.tree_accessors(tree, namespace='ns'),
                'map_with_path': lambda: optree.tree_map_with_path(lambda p, x: x, tree, namespace='ns'),
                'map_with_accessor': lambda: optree.tree_map_with_accessor(lambda a, x: x, tree, namespace='ns'),
                'map_': lambda: optree.tree_map_(lambda x: x, tree, namespace='ns'),
                'map': lambda: optree.tree_map(lambda x: x, tree, namespace='ns'),
                'flatten_up_to': lambda: gspec.flatten_up_to(tree),
                'map-rest': lambda: optree.tree_map(lambda x, y: x, good, tree, namespace='ns'),
                'one_level': lambda: optree.tree_flatten_one_level(cm, namespace='ns'),
                'from_collection': lambda: optree.treespec_from_collection(
                    un.CM([optree.treespec_leaf()] * arity, mode), namespace='ns'),
                'prefix_errors': lambda: optree.prefix_errors(good, tree, namespace='ns'),
                'broadcast': lambda: optree.tree_broadcast_common(good, tree, namespace='ns'),
            }
            well_formed_but_inconsistent = mode in ('returns-list', 'children-generator', 'children-list',
                                                    'entries-list', 'entries-none')
            # a malformed return is rejected by EVERY traversal, not silently repaired by some of them
            traversals = ('flatten', 'with_path', 'iter', 'with_accessor', 'leaves', 'structure', 'paths', 'accessors',
                          'map_with_path', 'map_with_accessor', 'map_', 'map')
            verdicts = {name: outcome_of(ops[name])[0] for name in traversals}
            ctx.count()
            if len(set(verdicts.values())) != 1:
                ctx.violation('malformed-accepted-by-some', f'{PROP}:malformed-return-accepted-by-some-traversals',
                              {'malformed': mode, 'arity': arity}, repr(verdicts))
            for name, op in ops.items():
                if well_formed_but_inconsistent and name in ('prefix_errors', 'broadcast', 'map-rest', 'flatten_up_to'):
                    continue  # a legal return on its own; pairing it with a differently-behaving instance is not "malformed"
                ctx.count()
                ctx.cls(('malformed', mode, arity, name))
                r = outcome_of(op)
                if r[0] == 'exc' and r[1] not in allowed:
                    ctx.violation('malformed-exception-type', f'{PROP}:malformed-exception-type',
                                  {'malformed': mode, 'arity': arity, 'op': name}, repr(r))
                ctx.outcome(f'malformed:{r[0] if r[0] == "ok" else r[1]}')
    # wrong leaf counts
    for tree in ((1, [2, 3]), {'a': 1, 'b': (2, 3)}, un.CM([1, 2], 'ok')):
        spec = optree.tree_structure(tree, namespace='ns')
        n = spec.num_leaves
        for leaves in ([0] * (n - 1), [0] * (n + 1), [], iter([0] * (n + 2)), 5, None, 'ab'):
            for name, op in (('unflatten', lambda lv=leaves: spec.unflatten(lv)),
                             ('tree_unflatten', lambda lv=leaves: optree.tree_unflatten(spec, lv)),
                             ('traverse', lambda lv=leaves: spec.traverse(lv)),
                             ('walk', lambda lv=leaves: spec.walk(lv))):
                ctx.count()
                r = outcome_of(op)
                if r[0] == 'ok' and not (isinstance(leaves, str) and len(leaves) == n):
                    ctx.violation('wrong-leaf-count-accepted', f'{PROP}:wrong-leaf-count', {'leaves': repr(leaves)}, repr(r))
                elif r[0] == 'exc' and r[1] not in allowed:
                    ctx.violation('wrong-leaf-count-exception-type', f'{PROP}:wrong-leaf-count',
                                  {'leaves': repr(leaves), 'op': name}, repr(r))


def run_shard(ctx):
    sys.setrecursionlimit(10000)
    i = 0
    opnames = list(operations(World(SCENARIOS[0])))
    for sc in SCENARIOS:
        for name in opnames:
            i += 1
            if ctx.mine(i):
                ctx.checkpoint(f'{sc}/{name}', {'scenario': sc, 'op': name})
                run_op(ctx, sc, name)
    if ctx.shard == 0:
        malformed(ctx)


def replay(case, ctx):
    c = case['case']
    if 'scenario' in c:
        run_op(ctx, c['scenario'], c['op'])
    else:
        malformed(ctx)


_ = Boom
