"""C16  No input can make the extension touch invalid memory or overflow the stack
(E3 under ASan+UBSan: depth grid, mutation-during-traversal grid, argument grid)."""

from __future__ import annotations

import itertools
import pickle
import sys
from collections import OrderedDict, defaultdict, deque

import optree

from mc import universe as un
from mc.e1 import outcome_of
from mc.universe import Leaf

PROP = 'C16'
NS = 'ns16'
LIM = optree.MAX_RECURSION_DEPTH

# =============================================================================================
# harness types


class Mut:
    """Custom node whose flatten function runs an armed action (mutating an enclosing container)."""

    action = None  # class-level: armed callable or None

    def __init__(self, children=()):
        self.children = list(children)


def mut_flatten(o):
    act = Mut.action
    if act is not None:
        Mut.action = None
        act()
    return list(o.children), None


def mut_unflatten(meta, children):
    return Mut(children)


class Loop:
    """Custom node whose flatten never terminates: its child is a new Loop."""


def loop_flatten(o):
    return [Loop()], None


class MKey:
    """Key whose __lt__ / __hash__ run an armed action."""

    action_lt = None
    action_hash = None

    def __init__(self, v):
        self.v = v

    def __hash__(self):
        act = MKey.action_hash
        if act is not None:
            MKey.action_hash = None
            act()
        return hash(self.v)

    def __eq__(self, other):
        return isinstance(other, MKey) and self.v == other.v

    def __lt__(self, other):
        act = MKey.action_lt
        if act is not None:
            MKey.action_lt = None
            act()
        return self.v < other.v

    def __repr__(self):
        return f'MKey({self.v})'


_reg = False


def ensure():
    global _reg  # noqa: PLW0603
    if not _reg:
        optree.register_pytree_node(Mut, mut_flatten, mut_unflatten, namespace=NS)
        optree.register_pytree_node(Loop, loop_flatten, lambda m, c: Loop(), namespace=NS)
        _reg = True


def consistent(result):
    """A (leaves, spec)-like result must be internally consistent."""
    try:
        if isinstance(result, tuple) and len(result) == 2 and isinstance(result[1], optree.PyTreeSpec):
            leaves, spec = result
            if spec.num_leaves != len(leaves):
                return f'num_leaves {spec.num_leaves} != {len(leaves)} leaves'
            spec.unflatten(leaves)
            spec.paths()
            repr(spec)
        return None
    except RecursionError:
        return None
    except Exception as ex:  # noqa: BLE001
        return f'inconsistent result: {ex!r}'


# =============================================================================================
# (a) depth grid

from mc.props.C03 import CHAIN_KINDS, ENTRY_POINTS, _dismantle, chain  # noqa: E402


def depth_cases():
    out = []
    for k in CHAIN_KINDS:
        for d in (LIM - 1, LIM, LIM + 1):
            out.append({'grid': 'depth', 'kind': k, 'depth': d})
    for k in ('list', 'dict', 'deque', 'odict', 'ddict', 'custom-loop', 'list-in-dict'):
        out.append({'grid': 'self-ref', 'kind': k})
    return out


def run_depth(ctx, c):  # noqa: C901
    ensure()
    e1_universe()
    kw = {'namespace': 'ns'}
    if c['grid'] == 'self-ref':
        k = c['kind']
        if k == 'list':
            t = []
            t.append(t)
        elif k == 'dict':
            t = {}
            t['k'] = t
        elif k == 'deque':
            t = deque()
            t.append(t)
        elif k == 'odict':
            t = OrderedDict()
            t['k'] = t
        elif k == 'ddict':
            t = defaultdict(list)
            t['k'] = t
        elif k == 'list-in-dict':
            t = {'a': [1]}
            t['a'].append(t)
        else:
            t = Loop()
            kw = {'namespace': NS}
        for name in ('flatten', 'with_path', 'iter', 'leaves', 'structure', 'paths', 'accessors', 'with_accessor'):
            ctx.count()
            r = outcome_of(lambda name=name: ENTRY_POINTS[name](t, {'is_leaf': None, 'none_is_leaf': False, **kw}))
            if r != ('exc', 'RecursionError'):
                ctx.violation('self-reference', f'{PROP}:self-reference', dict(c, op=name), repr(r)[:300])
        for name, op in (('map', lambda: optree.tree_map(lambda x: x, t, **kw)),
                         ('is_leaf', lambda: optree.tree_is_leaf(t, **kw)),
                         ('prefix_errors', lambda: optree.prefix_errors(t, t, **kw)),
                         ('broadcast', lambda: optree.tree_broadcast_common(t, t, **kw))):
            ctx.count()
            r = outcome_of(op)
            if r[0] == 'exc' and r[1] not in ('RecursionError',):
                ctx.violation('self-reference-other-op', f'{PROP}:self-reference', dict(c, op=name), repr(r)[:300])
        if isinstance(t, (list, dict, deque)):
            t.clear()
        ctx.cls(('self-ref', c['kind']))
        return
    d = c['depth']
    t = chain(c['kind'], d, True)
    should_raise = d > LIM
    if c['kind'] == 'cn':
        kw = {'namespace': 'ns'}
    full_kw = {'is_leaf': None, 'none_is_leaf': False, **kw}
    for name, f in ENTRY_POINTS.items():
        ctx.count()
        r = outcome_of(lambda f=f: f(t, full_kw))
        got = r if r[0] == 'exc' else 'ok'
        want = ('exc', 'RecursionError') if should_raise else 'ok'
        if got != want:
            ctx.violation(f'depth-threshold:{name}', f'{PROP}:depth-threshold', dict(c, op=name), f'{got} expected {want}')
    if not should_raise:
        leaves, spec = optree.tree_flatten(t, **kw)
        ops = {
            'map': lambda: optree.tree_map(lambda x, y: x, t, t, **kw),
            'unflatten': lambda: spec.unflatten(leaves),
            'paths': lambda: spec.paths(),
            'accessors': lambda: [a(t) for a in spec.accessors()],
            'repr': lambda: len(repr(spec)),
            'hash-eq': lambda: (hash(spec), spec == optree.tree_structure(t, **kw)),
            'pickle': lambda: pickle.loads(pickle.dumps(spec)) == spec,  # noqa: S301
            'children': lambda: spec.child(0).num_nodes if spec.num_children else 0,
            'is_prefix': lambda: (spec.is_prefix(spec), spec <= spec),
            'broadcast': lambda: spec.broadcast_to_common_suffix(spec) == spec,
            'compose-leaf': lambda: spec.compose(optree.treespec_leaf()) == spec,
            'transform': lambda: spec.transform(lambda s: s, lambda s: s) == spec,
            'flatten_up_to': lambda: len(spec.flatten_up_to(t)),
            'traverse': lambda: spec.traverse(leaves, lambda n: 0, lambda x: x),
            'broadcast_prefix': lambda: len(optree.broadcast_prefix(t, t, **kw)),
            'reduce': lambda: optree.tree_reduce(lambda a, x: a, t, 0, **kw),
        }
        for name, op in ops.items():
            ctx.count()
            r = outcome_of(op)
            if r[0] == 'exc':
                ctx.violation(f'at-limit:{name}', f'{PROP}:operation-fails-at-or-below-depth-limit',
                              dict(c, op=name), repr(r)[:300])
        del leaves, spec
    ctx.cls(('depth', c['kind'], d))
    ctx.outcome('depth:' + ('raises' if should_raise else 'ok'))
    _dismantle(t)


def deep_spec_cases():
    methods = ('paths', 'accessors', 'repr', 'hash', 'eq', 'children', 'child', 'unflatten', 'is_prefix',
               'broadcast', 'pickle', 'transform', 'compose', 'entries', 'flatten_up_to', 'traverse', 'num')
    out = []
    for doublings in (1, 3, 5, 7):
        for m in methods:
            out.append({'grid': 'deep-spec', 'doublings': doublings, 'method': m,
                        'crash_key': f'deep-composed-spec:{m}:stack-overflow'})
    return out


def run_deep_spec(ctx, c):
    sys.setrecursionlimit(1000000)
    base = [Leaf(0)]
    for _ in range(LIM - 1):
        base = [base]
    s = optree.tree_structure(base)
    _dismantle(base)
    for _ in range(c['doublings']):
        s = s.compose(s)
    m = c['method']
    ctx.count()
    ctx.cls(('deep-spec', c['doublings'], m))
    ops = {
        'paths': lambda: len(s.paths()),
        'accessors': lambda: len(s.accessors()),
        'repr': lambda: len(repr(s)),
        'hash': lambda: hash(s),
        'eq': lambda: s == s.compose(optree.treespec_leaf()),
        'children': lambda: len(s.children()),
        'child': lambda: s.child(0).num_nodes,
        'unflatten': lambda: _dismantle(s.unflatten([0])),
        'is_prefix': lambda: s.is_prefix(s),
        'broadcast': lambda: s.broadcast_to_common_suffix(s).num_nodes,
        'pickle': lambda: pickle.loads(pickle.dumps(s)).num_nodes,  # noqa: S301
        'transform': lambda: s.transform(lambda x: x, lambda x: x).num_nodes,
        'compose': lambda: s.compose(s).num_nodes,
        'entries': lambda: (s.entries(), s.entry(0)),
        'flatten_up_to': lambda: len(s.flatten_up_to(s.unflatten([0]))),
        'traverse': lambda: s.traverse([0], lambda n: 0, lambda x: x),
        'num': lambda: (s.num_leaves, s.num_nodes, s.num_children, s.kind, s.type, s.is_leaf(), s.one_level()),
    }
    r = outcome_of(ops[m])
    ctx.outcome(f'deep-spec:{r[0] if r[0] == "ok" else r[1]}')
    # any Python exception (RecursionError, MemoryError, ...) or a result is acceptable


# =============================================================================================
# (b) mutation during traversal

CONTAINERS = ('list', 'dict', 'odict', 'ddict', 'deque')
MUTATIONS = ('del-before', 'del-after', 'clear', 'append', 'replace-shorter')
TRAVERSALS = ('flatten', 'with_path', 'iter', 'flatten_up_to', 'tree_map', 'broadcast', 'prefix_errors',
              'from_collection', 'one_level', 'is_leaf-all_leaves')
TRIGGERS = ('predicate', 'custom-flatten', 'key-lt', 'key-hash')


def mutation_cases():
    out = []
    for trav, cont, trig, mut in itertools.product(TRAVERSALS, CONTAINERS, TRIGGERS, MUTATIONS):
        if trig in ('key-lt', 'key-hash') and cont in ('list', 'deque'):
            continue
        for pos in (0, 1, 3):
            out.append({'grid': 'mutation', 'traversal': trav, 'container': cont, 'trigger': trig,
                        'mutation': mut, 'position': pos})
    return out


def make_container(cont, items, keyed):
    keys = [MKey(i) if keyed else f'k{i}' for i in range(len(items))]
    if cont == 'list':
        return list(items), None
    if cont == 'deque':
        return deque(items), None
    pairs = list(zip(keys, items))
    if cont == 'dict':
        return dict(reversed(pairs)), keys
    if cont == 'odict':
        return OrderedDict(pairs), keys
    return defaultdict(list, reversed(pairs)), keys


def mutate(container, keys, how, pos):
    def act():
        if isinstance(container, (list, deque)):
            if how == 'del-before' and len(container) > 0:
                del container[0]
            elif how == 'del-after' and len(container) > pos + 1:
                del container[len(container) - 1]
            elif how == 'clear':
                container.clear()
            elif how == 'append':
                for _ in range(64):
                    container.append(Leaf(77))
            elif how == 'replace-shorter':
                keep = container[0] if len(container) else None
                container.clear()
                container.append(keep)
        else:
            ks = list(container)
            if how == 'del-before' and ks:
                del container[ks[0]]
            elif how == 'del-after' and ks:
                del container[ks[-1]]
            elif how == 'clear':
                container.clear()
            elif how == 'append':
                for i in range(64):
                    container[f'zz{i}'] = Leaf(77)
            elif how == 'replace-shorter' and ks:
                v = container[ks[0]]
                container.clear()
                container['only'] = v
    return act


def run_mutation(ctx, c):  # noqa: C901, PLR0912
    ensure()
    pos = c['position']
    keyed = c['trigger'] in ('key-lt', 'key-hash')
    items = [Leaf(0), Leaf(1), Leaf(2), Leaf(3)]
    if c['trigger'] == 'custom-flatten':
        items[pos] = Mut([Leaf(10), Leaf(11)])
    if c['traversal'] == 'from_collection':
        leafspec = optree.treespec_leaf()
        items = [leafspec if not isinstance(x, Mut) else x for x in items]
        if c['trigger'] == 'custom-flatten':
            items[pos] = Mut([leafspec])
    container, keys = make_container(c['container'], items, keyed)
    outer = [Leaf(20), container, Leaf(21)]
    fresh_copy = [Leaf(20), make_container(c['container'], [Leaf(0), Leaf(1), Leaf(2), Leaf(3)], False)[0], Leaf(21)]
    action = mutate(container, keys, c['mutation'], pos)
    target = items[pos]
    armed = [True]

    def pred(x):
        if c['trigger'] == 'predicate' and armed[0] and x is target:
            armed[0] = False
            action()
        return False

    if c['trigger'] == 'custom-flatten':
        Mut.action = action
    elif c['trigger'] == 'key-lt':
        MKey.action_lt = action
    elif c['trigger'] == 'key-hash':
        # arm after construction: the first hash during the traversal mutates
        MKey.action_hash = action
    kw = {'is_leaf': pred if c['trigger'] == 'predicate' else None, 'namespace': NS}
    try:
        spec0 = None
        if c['traversal'] in ('flatten_up_to',):
            MKey.action_hash = MKey.action_lt = None
            saved = Mut.action
            Mut.action = None
            spec0 = optree.tree_structure(outer, namespace=NS)
            Mut.action = saved
            if c['trigger'] == 'key-lt':
                MKey.action_lt = action
            elif c['trigger'] == 'key-hash':
                MKey.action_hash = action
        trav = c['traversal']
        ops = {
            'flatten': lambda: optree.tree_flatten(outer, **kw),
            'with_path': lambda: optree.tree_flatten_with_path(outer, **kw),
            'iter': lambda: list(optree.tree_iter(outer, **kw)),
            'flatten_up_to': lambda: spec0.flatten_up_to(outer),
            'tree_map': lambda: optree.tree_map(lambda x, y: x, outer, outer, **kw),
            'broadcast': lambda: optree.tree_broadcast_common(outer, outer, **kw),
            'prefix_errors': lambda: optree.prefix_errors(outer, outer, **kw),
            'from_collection': lambda: optree.treespec_from_collection(container, namespace=NS),
            'one_level': lambda: optree.tree_flatten_one_level(container, namespace=NS),
            'is_leaf-all_leaves': lambda: (optree.all_leaves(container if isinstance(container, (list, deque)) else list(container.values()), **kw),
                                          optree.tree_is_leaf(outer, **kw)),
        }
        ctx.count()
        ctx.cls(tuple(sorted(c.items())))
        r = outcome_of(ops[trav])
        if r[0] == 'ok':
            why = consistent(r[1]) if trav == 'flatten' else None
            if why:
                ctx.violation('inconsistent-result-after-mutation', f'{PROP}:inconsistent-result-after-mutation', c, why)
        ctx.outcome(f'mutation:{r[0] if r[0] == "ok" else r[1]}')
        del r
    finally:
        Mut.action = None
        MKey.action_lt = None
        MKey.action_hash = None
    _ = fresh_copy


# =============================================================================================
# (c) argument grid

def weird_values():
    e1_universe()
    spec = optree.tree_structure((1, [2]))
    return {
        'int': 5, 'str': 'ab', 'none': None, 'object': object(), 'spec': spec, 'iterator': iter([1, 2]),
        'class': dict, 'bytes': b'xy', 'float-nan': float('nan'), 'huge-int': 2**70, 'tuple-of-spec': (spec,),
        'generator': (i for i in range(2)), 'callable': len,
    }


API = {
    # name: (callable, arg slots)  slots: 'tree' | 'leaves' | 'spec' | 'func' | 'ns' | 'bool' | 'int'
    'tree_flatten': (optree.tree_flatten, ['tree', 'func']),
    'tree_flatten_with_path': (optree.tree_flatten_with_path, ['tree', 'func']),
    'tree_flatten_with_accessor': (optree.tree_flatten_with_accessor, ['tree', 'func']),
    'tree_unflatten': (optree.tree_unflatten, ['spec', 'leaves']),
    'tree_iter': (lambda *a: list(optree.tree_iter(*a)), ['tree', 'func']),
    'tree_leaves': (optree.tree_leaves, ['tree', 'func']),
    'tree_structure': (optree.tree_structure, ['tree', 'func']),
    'tree_paths': (optree.tree_paths, ['tree', 'func']),
    'tree_is_leaf': (optree.tree_is_leaf, ['tree', 'func']),
    'all_leaves': (optree.all_leaves, ['leaves', 'func']),
    'tree_map': (optree.tree_map, ['func', 'tree', 'tree']),
    'tree_map_': (optree.tree_map_, ['func', 'tree', 'tree']),
    'tree_map_with_path': (optree.tree_map_with_path, ['func', 'tree', 'tree']),
    'tree_transpose': (optree.tree_transpose, ['spec', 'spec', 'tree']),
    'tree_transpose_map': (optree.tree_transpose_map, ['func', 'tree']),
    'tree_broadcast_prefix': (optree.tree_broadcast_prefix, ['tree', 'tree']),
    'broadcast_prefix': (optree.broadcast_prefix, ['tree', 'tree']),
    'tree_broadcast_common': (optree.tree_broadcast_common, ['tree', 'tree']),
    'tree_broadcast_map': (optree.tree_broadcast_map, ['func', 'tree', 'tree']),
    'tree_reduce': (optree.tree_reduce, ['func', 'tree']),
    'tree_sum': (optree.tree_sum, ['tree']),
    'tree_max': (optree.tree_max, ['tree']),
    'tree_all': (optree.tree_all, ['tree']),
    'tree_flatten_one_level': (optree.tree_flatten_one_level, ['tree', 'func']),
    'prefix_errors': (optree.prefix_errors, ['tree', 'tree', 'func']),
    'treespec_paths': (optree.treespec_paths, ['spec']),
    'treespec_accessors': (optree.treespec_accessors, ['spec']),
    'treespec_entries': (optree.treespec_entries, ['spec']),
    'treespec_entry': (optree.treespec_entry, ['spec', 'int']),
    'treespec_children': (optree.treespec_children, ['spec']),
    'treespec_child': (optree.treespec_child, ['spec', 'int']),
    'treespec_one_level': (optree.treespec_one_level, ['spec']),
    'treespec_transform': (optree.treespec_transform, ['spec', 'func', 'func']),
    'treespec_is_leaf': (optree.treespec_is_leaf, ['spec']),
    'treespec_is_prefix': (optree.treespec_is_prefix, ['spec', 'spec']),
    'treespec_is_suffix': (optree.treespec_is_suffix, ['spec', 'spec']),
    'treespec_tuple': (optree.treespec_tuple, ['leaves']),
    'treespec_list': (optree.treespec_list, ['leaves']),
    'treespec_dict': (optree.treespec_dict, ['tree']),
    'treespec_ordereddict': (optree.treespec_ordereddict, ['tree']),
    'treespec_defaultdict': (optree.treespec_defaultdict, ['func', 'tree']),
    'treespec_deque': (optree.treespec_deque, ['leaves', 'int']),
    'treespec_namedtuple': (optree.treespec_namedtuple, ['tree']),
    'treespec_structseq': (optree.treespec_structseq, ['tree']),
    'treespec_from_collection': (optree.treespec_from_collection, ['tree']),
    'spec.unflatten': (lambda s, l: s.unflatten(l), ['spec', 'leaves']),
    'spec.flatten_up_to': (lambda s, t: s.flatten_up_to(t), ['spec', 'tree']),
    'spec.compose': (lambda s, t: s.compose(t), ['spec', 'spec']),
    'spec.broadcast': (lambda s, t: s.broadcast_to_common_suffix(t), ['spec', 'spec']),
    'spec.traverse': (lambda s, l, f, g: s.traverse(l, f, g), ['spec', 'leaves', 'func', 'func']),
    'spec.walk': (lambda s, l, f, g: s.walk(l, f, g), ['spec', 'leaves', 'func', 'func']),
    'spec.eq': (lambda s, t: (s == t, s != t, s < t, s <= t, s > t, s >= t), ['spec', 'spec']),
    'spec.setstate': (lambda s, st: s.__setstate__(st), ['spec', 'tree']),
    'register': (lambda c, f, g: optree.register_pytree_node(c, f, g, namespace='ns16-arg'), ['class', 'func', 'func']),
    'unregister': (lambda c: optree.unregister_pytree_node(c, namespace='ns16-arg'), ['class']),
    'accessor': (lambda t: optree.PyTreeAccessor(t), ['leaves']),
    'dict_insertion_ordered': (lambda m, n: optree.dict_insertion_ordered(m, namespace=n).__enter__(), ['bool', 'ns']),
}


def good_value(slot):
    if slot == 'tree':
        return {'b': (Leaf(1), [Leaf(2)]), 'a': Leaf(3)}
    if slot == 'leaves':
        return [Leaf(1), Leaf(2), Leaf(3)]
    if slot == 'spec':
        return optree.tree_structure({'b': (1, [2]), 'a': 3})
    if slot == 'func':
        return None
    if slot == 'int':
        return 0
    if slot == 'ns':
        return 'ns16-x'
    if slot == 'bool':
        return False
    if slot == 'class':
        return type('Tmp16', (), {})
    raise AssertionError(slot)


def argument_cases():
    out = []
    wv = ['int', 'str', 'none', 'object', 'spec', 'iterator', 'class', 'bytes', 'float-nan', 'huge-int',
          'tuple-of-spec', 'generator', 'callable']
    for name, (_, slots) in API.items():
        for i in range(len(slots)):
            for w in wv:
                out.append({'grid': 'argument', 'api': name, 'slot': i, 'value': w})
    for idx in (2**63 - 1, -2**63, 2**63, -2**63 - 1, 2**31, -2**31 - 1, 2**64):
        for m in ('child', 'entry'):
            out.append({'grid': 'index', 'method': m, 'index': idx})
    return out


def run_argument(ctx, c):
    e1_universe()
    ctx.count()
    ctx.cls(tuple(sorted(c.items())))
    if c['grid'] == 'index':
        s = optree.tree_structure((1, [2, 3], {'a': 4}))
        r = outcome_of(lambda: getattr(s, c['method'])(c['index']))
        if r[0] == 'ok':
            ctx.violation('index-accepted', f'{PROP}:huge-index-accepted', c, repr(r))
        ctx.outcome(f'index:{r[1] if r[0] == "exc" else "ok"}')
        return
    fn, slots = API[c['api']]
    args = [good_value(s) for s in slots]
    args[c['slot']] = weird_values()[c['value']]
    if c['api'] in ('tree_map', 'tree_map_', 'tree_broadcast_map', 'tree_transpose_map', 'tree_reduce') and c['slot'] != 0:
        args[0] = (lambda *a: a[0])
    if c['api'] == 'tree_map_with_path' and c['slot'] != 0:
        args[0] = (lambda p, *a: a[0])
    r = outcome_of(lambda: fn(*args))
    ctx.outcome(f'arg:{r[0] if r[0] == "ok" else r[1]}')
    if c['api'] == 'dict_insertion_ordered':
        for ns in ('ns16-x',):
            optree._C.set_dict_insertion_ordered(False, ns)
    if c['api'] == 'register' and r[0] == 'ok':
        try:
            optree.unregister_pytree_node(args[0], namespace='ns16-arg')
        except Exception:  # noqa: BLE001
            pass


# ---- __setstate__ corruption grid ---------------------------------------------------------------------
FIELD_VALUES = ('none', 'minus1', 'zero', 'huge', 'wrong-type', 'plus1')


def setstate_cases():
    out = []
    for tree_name in ('tuple', 'dict', 'ddict', 'custom', 'deque-nt'):
        for node in (0, -1):
            for field in range(8):
                for v in FIELD_VALUES:
                    out.append({'grid': 'setstate', 'tree': tree_name, 'node': node, 'field': field, 'value': v,
                                'crash_key': f'setstate-corrupt:field{field}:{v}'})
        for top in ('nodes-empty', 'nodes-none', 'nil-none', 'ns-int', 'short-tuple', 'extra-node', 'drop-node'):
            out.append({'grid': 'setstate-top', 'tree': tree_name, 'top': top,
                        'crash_key': f'setstate-corrupt:{top}'})
    return out


def _state_tree(name):
    e1_universe()
    if name == 'tuple':
        return optree.tree_structure((Leaf(0), [Leaf(1), Leaf(2)])), [0, 1, 2]
    if name == 'dict':
        return optree.tree_structure({'b': Leaf(0), 'a': (Leaf(1),)}), [0, 1]
    if name == 'ddict':
        return optree.tree_structure(defaultdict(list, {'q': Leaf(0), 'p': None})), [0]
    if name == 'custom':
        return optree.tree_structure(un.CN([Leaf(0), (Leaf(1),)]), namespace='ns'), [0, 1]
    return optree.tree_structure(deque([un.NT2(Leaf(0), Leaf(1))], maxlen=3)), [0, 1]


def run_setstate(ctx, c):  # noqa: C901, PLR0912
    spec, leaves = _state_tree(c['tree'])
    nodes, nil, ns = spec.__getstate__()
    nodes = [list(n) for n in nodes]
    ctx.count()
    ctx.cls(tuple(sorted((k, str(v)) for k, v in c.items())))
    if c['grid'] == 'setstate':
        i = c['node'] if c['node'] >= 0 else len(nodes) - 1
        old = nodes[i][c['field']]
        v = c['value']
        new = {'none': None, 'minus1': -1, 'zero': 0, 'huge': 2**62, 'wrong-type': 'x',
               'plus1': (old + 1) if isinstance(old, int) else [old]}[v]
        nodes[i][c['field']] = new
        state = (tuple(tuple(n) for n in nodes), nil, ns)
    else:
        top = c['top']
        tn = tuple(tuple(n) for n in nodes)
        state = {
            'nodes-empty': ((), nil, ns), 'nodes-none': (None, nil, ns), 'nil-none': (tn, None, ns),
            'ns-int': (tn, nil, 5), 'short-tuple': (tn, nil),
            'extra-node': ((*tn, tn[-1]), nil, ns), 'drop-node': (tn[1:], nil, ns),
        }[top]
    blank = optree.PyTreeSpec.__new__(optree.PyTreeSpec)
    r = outcome_of(lambda: blank.__setstate__(state))
    if r[0] == 'ok':
        # accepted: every method must stay memory safe on the resulting object
        for name, op in (('repr', lambda: repr(blank)), ('paths', lambda: blank.paths()),
                         ('accessors', lambda: blank.accessors()),
                         ('unflatten', lambda: blank.unflatten(leaves)), ('children', lambda: blank.children()),
                         ('hash', lambda: hash(blank)), ('eq', lambda: blank == spec), ('is_prefix', lambda: (blank <= spec, spec <= blank)),
                         ('broadcast', lambda: blank.broadcast_to_common_suffix(spec)),
                         ('compose', lambda: blank.compose(spec).paths()), ('entries', lambda: blank.entries()),
                         ('child', lambda: blank.child(0)), ('one_level', lambda: blank.one_level()),
                         ('getstate', lambda: blank.__getstate__()), ('transform', lambda: blank.transform(lambda s: s, lambda s: s)),
                         ('traverse', lambda: blank.traverse(leaves)),
                         ('flatten_up_to', lambda: blank.flatten_up_to((1, [2, 3])))):
            ctx.count()
            outcome_of(op)
    ctx.outcome(f'setstate:{r[0] if r[0] == "ok" else r[1]}')


# =============================================================================================
# (f) node metadata reached by user code (walk's f_node receives it) and grown / shrunk, then treespec methods

ALIAS_KINDS = ('dict', 'odict', 'ddict')
ALIAS_MUTATIONS = ('append', 'append2', 'pop', 'clear', 'unhashable-first', 'duplicate-last')
ALIAS_OPS = ('unflatten', 'tree_unflatten', 'traverse', 'walk', 'tree_map', 'paths', 'accessors', 'entries', 'entry',
             'children', 'child', 'one_level', 'repr', 'hash', 'eq', 'pickle', 'flatten_up_to', 'is_prefix', 'is_suffix',
             'compose', 'broadcast', 'broadcast-rev', 'transform', 'copy')


def alias_cases():
    return [{'grid': 'alias', 'kind': k, 'arity': a, 'mutation': m, 'op': op,
             'crash_key': f'aliased-key-list:{m}:{op}'}
            for k in ALIAS_KINDS for a in (1, 3, 4, 5) for m in ALIAS_MUTATIONS for op in ALIAS_OPS]


def run_alias(ctx, c):  # noqa: C901
    import copy  # noqa: PLC0415
    import pickle  # noqa: PLC0415

    ctx.count()
    ctx.cls(tuple(sorted((k, str(v)) for k, v in c.items())))
    keys = [f'k{i}' for i in range(c['arity'])][::-1]
    items = [(k, Leaf(i)) for i, k in enumerate(keys)]
    node = {'dict': dict, 'odict': OrderedDict, 'ddict': lambda it: defaultdict(list, it)}[c['kind']](items)
    tree = [node, Leaf(99)]
    leaves, spec = optree.tree_flatten(tree)
    fresh = optree.tree_structure(tree)
    seen = []
    spec.walk(leaves, lambda t, data, ch: seen.append(data) or ch, None)
    lists = [d for d in seen if isinstance(d, list)] + [x for d in seen if isinstance(d, tuple) for x in d if isinstance(x, list)]
    ctx.extra['alias-lists-reached'] += len(lists)
    for kl in lists:
        m = c['mutation']
        if m == 'append':
            kl.append('zz')
        elif m == 'append2':
            kl.extend(['zz', 'zy'])
        elif m == 'pop':
            kl.pop()
        elif m == 'clear':
            kl.clear()
        elif m == 'unhashable-first' and kl:
            kl[0] = []
        elif m == 'duplicate-last' and kl:
            kl[-1] = kl[0]
    ops = {
        'unflatten': lambda: spec.unflatten(leaves), 'tree_unflatten': lambda: optree.tree_unflatten(spec, iter(leaves)),
        'traverse': lambda: spec.traverse(leaves), 'walk': lambda: spec.walk(leaves),
        'tree_map': lambda: optree.tree_map(lambda x: x, spec.unflatten(leaves)),
        'paths': spec.paths, 'accessors': spec.accessors, 'entries': lambda: spec.child(0).entries(),
        'entry': lambda: spec.child(0).entry(c['arity'] - 1), 'children': lambda: spec.child(0).children(),
        'child': lambda: spec.child(0).child(c['arity'] - 1), 'one_level': lambda: spec.child(0).one_level(),
        'repr': lambda: repr(spec), 'hash': lambda: hash(spec), 'eq': lambda: (spec == fresh, fresh == spec),
        'pickle': lambda: pickle.loads(pickle.dumps(spec)),  # noqa: S301
        'flatten_up_to': lambda: spec.flatten_up_to(tree), 'is_prefix': lambda: (spec.is_prefix(fresh), spec <= fresh),
        'is_suffix': lambda: (fresh.is_prefix(spec), fresh <= spec), 'compose': lambda: spec.compose(fresh).paths(),
        'broadcast': lambda: spec.broadcast_to_common_suffix(fresh), 'broadcast-rev': lambda: fresh.broadcast_to_common_suffix(spec),
        'transform': lambda: spec.transform(lambda s: s, lambda s: s), 'copy': lambda: copy.copy(spec).unflatten(leaves),
    }
    r = outcome_of(ops[c['op']])
    if r[0] == 'ok' and c['op'] in ('unflatten', 'tree_unflatten', 'copy', 'tree_map'):
        # a consistent result: every value in the rebuilt tree is one of the leaves that went in
        def values(o):
            if isinstance(o, dict):
                for v in o.values():
                    yield from values(v)
            elif isinstance(o, (list, tuple)):
                for v in o:
                    yield from values(v)
            else:
                yield o
        # (None is the engine's placeholder for a reserved key slot that the corrupted key list no longer fills)
        stray = [v for v in values(r[1]) if v is not None and not any(v is x for x in leaves)]
        if stray:
            ctx.violation('aliased-key-list', f'{PROP}:aliased-key-list:stray-object-in-result', c,
                          f'{c["op"]} after {c["mutation"]} returned a tree holding objects that are not among the leaves: '
                          f'{[type(v).__name__ for v in stray]!r}')
    ctx.outcome(f'alias:{r[0] if r[0] == "ok" else r[1]}')


# =============================================================================================
# (g) instances of node classes whose content contradicts their class (built through tuple.__new__ / dict.__setitem__)

MALFORMED = ('nt-empty', 'nt-short', 'nt-long', 'nts-short', 'odict-extra-hidden-key', 'odict-hidden-deleted-key',
             'ddict-extra-after-spec')
MALFORMED_OPS = ('tree_flatten', 'tree_flatten_with_path', 'tree_flatten_with_accessor', 'tree_iter', 'tree_leaves',
                 'tree_structure', 'tree_flatten_one_level', 'flatten_up_to', 'flatten_up_to-rev', 'tree_map', 'tree_map-rev',
                 'tree_map_with_path', 'broadcast_prefix', 'broadcast_prefix-rev', 'tree_broadcast_common', 'prefix_errors',
                 'prefix_errors-rev', 'tree_transpose_map', 'treespec_namedtuple', 'treespec_from_collection', 'roundtrip')


def malformed_cases():
    return [{'grid': 'malformed', 'object': m, 'where': w, 'op': op, 'crash_key': f'malformed-instance:{m}:{op}'}
            for m in MALFORMED for w in ('root', 'in-list', 'in-dict') for op in MALFORMED_OPS]


def _malformed(name):
    """(well-formed instance, malformed instance of the same class)."""
    a, b, c = Leaf(1), Leaf(2), Leaf(3)
    if name.startswith('nt'):
        cls = un.NT2s if name.startswith('nts') else un.NT2
        items = {'empty': (), 'short': (a,), 'long': (a, b, c)}[name.split('-')[1]]
        return cls(a, b), tuple.__new__(cls, items)
    if name == 'odict-extra-hidden-key':
        good, bad = OrderedDict(x=a, y=b), OrderedDict(x=a, y=b)
        dict.__setitem__(bad, 'hidden', c)  # in the hash table, not in the linked list: len() 3, iteration yields 2
        return good, bad
    if name == 'odict-hidden-deleted-key':
        good, bad = OrderedDict(x=a, y=b), OrderedDict(x=a, y=b)
        dict.__delitem__(bad, 'x')  # still in the linked list: iteration raises KeyError / yields a dead key
        return good, bad
    good, bad = defaultdict(list, x=a, y=b), defaultdict(list, x=a, y=b)
    return good, bad


def run_malformed(ctx, c):  # noqa: C901
    ctx.count()
    ctx.cls(tuple(sorted((k, str(v)) for k, v in c.items())))
    good, bad = _malformed(c['object'])
    wrap = {'root': lambda o: o, 'in-list': lambda o: [Leaf(7), o], 'in-dict': lambda o: {'k': o, 'j': Leaf(7)}}[c['where']]
    gt, bt = wrap(good), wrap(bad)
    gspec = optree.tree_structure(gt)
    if c['object'] == 'ddict-extra-after-spec':
        bad['z'] = Leaf(9)  # grown after the treespec of the well-formed twin was taken
    ident = lambda x, *r: x  # noqa: E731
    ops = {
        'tree_flatten': lambda: optree.tree_flatten(bt), 'tree_flatten_with_path': lambda: optree.tree_flatten_with_path(bt),
        'tree_flatten_with_accessor': lambda: optree.tree_flatten_with_accessor(bt), 'tree_iter': lambda: list(optree.tree_iter(bt)),
        'tree_leaves': lambda: optree.tree_leaves(bt), 'tree_structure': lambda: optree.tree_structure(bt),
        'tree_flatten_one_level': lambda: optree.tree_flatten_one_level(bad),
        'flatten_up_to': lambda: gspec.flatten_up_to(bt), 'flatten_up_to-rev': lambda: optree.tree_structure(bt).flatten_up_to(gt),
        'tree_map': lambda: optree.tree_map(ident, gt, bt), 'tree_map-rev': lambda: optree.tree_map(ident, bt, gt),
        'tree_map_with_path': lambda: optree.tree_map_with_path(lambda p, x, y: x, gt, bt),
        'broadcast_prefix': lambda: optree.broadcast_prefix(gt, bt), 'broadcast_prefix-rev': lambda: optree.broadcast_prefix(bt, gt),
        'tree_broadcast_common': lambda: optree.tree_broadcast_common(gt, bt),
        'prefix_errors': lambda: optree.prefix_errors(gt, bt), 'prefix_errors-rev': lambda: optree.prefix_errors(bt, gt),
        'tree_transpose_map': lambda: optree.tree_transpose_map(lambda x: wrap(_malformed(c['object'])[1]), gt),
        'treespec_namedtuple': lambda: optree.treespec_namedtuple(
            tuple.__new__(type(bad), [optree.treespec_leaf()] * len(bad)) if isinstance(bad, tuple) else bad),
        'treespec_from_collection': lambda: optree.treespec_from_collection(
            tuple.__new__(type(bad), [optree.treespec_leaf()] * len(bad)) if isinstance(bad, tuple) else
            type(bad)(bad.default_factory, {k: optree.treespec_leaf() for k in bad}) if isinstance(bad, defaultdict) else bad),
        'roundtrip': lambda: (lambda ls, sp: (sp.unflatten(ls), sp.paths(), sp.accessors(), repr(sp), hash(sp), sp.entries(),
                                              sp.children()))(*optree.tree_flatten(bt)),
    }
    r = outcome_of(ops[c['op']])
    if r[0] == 'ok' and isinstance(r[1], tuple) and len(r[1]) == 2 and isinstance(r[1][1], optree.PyTreeSpec):
        leaves, spec = r[1]
        if spec.num_leaves != len(leaves):
            ctx.violation('malformed-instance', f'{PROP}:malformed-instance:inconsistent-result', c,
                          f'num_leaves {spec.num_leaves} != {len(leaves)} leaves')
        for follow in (lambda: spec.unflatten(leaves), spec.paths, spec.accessors, lambda: repr(spec), lambda: hash(spec)):
            outcome_of(follow)  # may raise (the class constructor rejects the content) -- must not crash
    ctx.outcome(f'malformed:{r[0] if r[0] == "ok" else r[1]}')


# =============================================================================================
# (h) class objects that die and whose address is reused by another class (release build: ASan's quarantine delays reuse)

TYPE_REUSE_ARM = ('is_namedtuple_class', 'is_namedtuple-instance', 'flatten-empty-instance', 'flatten-instance-of-containers',
                  'is_structseq_class', 'namedtuple_fields')
TYPE_REUSE_NEXT = ('plain-object', 'list-subclass', 'tuple-subclass', 'dict-subclass', 'namedtuple-other-fields')


def type_reuse_cases():
    return [{'grid': 'type-reuse', 'arm': a, 'next': n, 'crash_key': f'type-address-reuse:{a}:{n}'}
            for a in TYPE_REUSE_ARM for n in TYPE_REUSE_NEXT]


def run_type_reuse(ctx, c):
    import gc  # noqa: PLC0415
    from collections import namedtuple  # noqa: PLC0415

    ctx.count()
    ctx.cls(tuple(sorted((k, str(v)) for k, v in c.items())))
    reused = 0
    for rnd in range(120):
        NT = namedtuple(f'R{rnd}', 'a b')  # noqa: PYI024
        addr = id(NT)
        arm = c['arm']
        if arm == 'is_namedtuple_class':
            optree.is_namedtuple_class(NT)
        elif arm == 'is_namedtuple-instance':
            optree.is_namedtuple(NT(1, 2))
        elif arm == 'flatten-empty-instance':
            optree.tree_leaves(namedtuple(f'E{rnd}', '')())  # noqa: PYI024
            optree.tree_leaves(NT([], None))
        elif arm == 'flatten-instance-of-containers':
            optree.tree_structure(NT((), []))
        elif arm == 'is_structseq_class':
            optree.is_structseq_class(NT)
        else:
            optree.namedtuple_fields(NT)
        del NT
        gc.collect()
        nxt = c['next']
        made = []
        for k in range(6):
            if nxt == 'plain-object':
                cls = type(f'P{rnd}_{k}', (), {})
                inst, want = cls(), 'LEAF'
            elif nxt == 'list-subclass':
                cls = type(f'P{rnd}_{k}', (list,), {})
                inst, want = cls([1]), 'LEAF'
            elif nxt == 'tuple-subclass':
                cls = type(f'P{rnd}_{k}', (tuple,), {})
                inst, want = cls((1, 2)), 'LEAF'
            elif nxt == 'dict-subclass':
                cls = type(f'P{rnd}_{k}', (dict,), {})
                inst, want = cls(a=1), 'LEAF'
            else:
                cls = namedtuple(f'P{rnd}_{k}', 'x y z')  # noqa: PYI024
                inst, want = cls(1, 2, 3), 'NAMEDTUPLE'
            made.append(cls)
            if id(cls) == addr:
                reused += 1
            r = outcome_of(lambda inst=inst: (optree.tree_structure(inst).kind.name, len(optree.tree_leaves(inst)),
                                              optree.is_namedtuple(inst), optree.is_structseq(inst)))
            exp = ('ok', (want, 3 if want == 'NAMEDTUPLE' else 1, want == 'NAMEDTUPLE', False))
            if r != exp:
                ctx.violation('type-address-reuse', f'{PROP}:type-address-reuse:wrong-classification', c,
                              f'round {rnd}: an instance of a fresh {nxt} class (address reused: {id(cls) == addr}) -> {r!r}, '
                              f'expected {exp!r}')
                return
        del made
    ctx.extra['type-reuse-address-reused'] += reused
    ctx.outcome(f'type-reuse:reused={min(reused, 1)}')


def e1_universe():
    from mc import e1  # noqa: PLC0415

    return e1.universe()


# =============================================================================================

def all_cases(tier):
    cases = depth_cases() + deep_spec_cases() + mutation_cases() + argument_cases() + setstate_cases() + alias_cases() + malformed_cases() + type_reuse_cases()
    return cases


RUNNERS = {'depth': run_depth, 'self-ref': run_depth, 'deep-spec': run_deep_spec, 'mutation': run_mutation,
           'argument': run_argument, 'index': run_argument, 'setstate': run_setstate, 'setstate-top': run_setstate, 'alias': run_alias, 'malformed': run_malformed, 'type-reuse': run_type_reuse}


REL_SHARDS = 4  # shards 0..3 run on the release build with the default 8 MB stack: deep-spec grid only


def run_shard(ctx):
    sys.setrecursionlimit(20000)
    cases = all_cases(ctx.tier)
    deep = [c for c in cases if c['grid'] in ('deep-spec', 'type-reuse')]  # run on the release build
    rest = [c for c in cases if c['grid'] not in ('deep-spec', 'type-reuse')]
    if ctx.nshards <= REL_SHARDS:
        mine = list(enumerate(cases))
    elif ctx.shard < REL_SHARDS:
        mine = [(i, c) for i, c in enumerate(deep) if i % REL_SHARDS == ctx.shard]
    else:
        k = ctx.nshards - REL_SHARDS
        mine = [(1000 + i, c) for i, c in enumerate(rest) if i % k == ctx.shard - REL_SHARDS]
    for i, c in mine:
        cid = f'{c["grid"]}#{i}'
        if ctx.skipped(cid):
            continue
        ctx.checkpoint(cid, c)
        RUNNERS[c['grid']](ctx, c)
        if len(ctx.samples) < 3:
            ctx.sample(c)


def replay(case, ctx):
    sys.setrecursionlimit(20000)
    c = case['case']
    ctx.checkpoint('replay', c)
    RUNNERS[c['grid']](ctx, c)
