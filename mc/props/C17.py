"""C17  Concurrent use from several threads is equivalent to some sequential use (E4)."""

from __future__ import annotations

import faulthandler
import itertools
import pickle
import sys
import warnings
from collections import namedtuple

import optree
import optree.registry as oreg

from mc import sched
from mc.e1 import outcome_of
from mc.universe import Leaf

PROP = 'C17'
WATCHDOG_S = 8
CUR = [None]  # current Execution


def P(label):
    ex = CUR[0]
    if ex is not None:
        ex.point(label)


_lock_installed = False


def install_lock():
    global _lock_installed  # noqa: PLW0603
    if not _lock_installed:
        oreg.__dict__['__REGISTRY_LOCK'] = sched.SchedLock(lambda: CUR[0], 'REGISTRY_LOCK')
        _lock_installed = True


# =============================================================================================
# instrumented world (fresh per execution)


class World:
    def __init__(self):
        class Key:
            __slots__ = ('v',)

            def __init__(self, v):
                self.v = v

            def __hash__(self):
                P('key.__hash__')
                return hash(self.v)

            def __eq__(self, o):
                P('key.__eq__')
                return isinstance(o, Key) and o.v == self.v

            def __lt__(self, o):
                P('key.__lt__')
                return self.v < o.v

            def __repr__(self):
                P('key.__repr__')
                return f'Key({self.v})'

            def __reduce__(self):
                return (_mk_key, (self.v,))

        class Meta:
            def __init__(self, v):
                self.v = v

            def __eq__(self, o):
                P('meta.__eq__')
                return isinstance(o, Meta) and o.v == self.v

            def __hash__(self):
                P('meta.__hash__')
                return hash(self.v)

            def __repr__(self):
                P('meta.__repr__')
                return f'Meta({self.v})'

        class CX:
            def __init__(self, children, meta=None):
                self.children = list(children)
                self.meta = meta

        self.Key, self.Meta, self.CX = Key, Meta, CX
        self.ns = 'ns17'
        self.tags = []

        def fl(o):
            P('custom.flatten')
            return list(o.children), o.meta

        def un(meta, ch):
            P('custom.unflatten')
            return CX(ch, meta)

        def fl2(o):
            P('custom.flatten2')
            return list(reversed(o.children)), ('v2', o.meta)

        def un2(meta, ch):
            P('custom.unflatten2')
            return CX(list(reversed(list(ch))), meta[1])

        self.fl, self.un, self.fl2, self.un2 = fl, un, fl2, un2
        self.registered = []

    def register(self, cls, fl, un, ns=None):
        optree.register_pytree_node(cls, fl, un, namespace=ns or self.ns)
        self.registered.append((cls, ns or self.ns))

    def cleanup(self):
        CUR[0] = None
        for cls, ns in set(self.registered):
            try:
                optree.unregister_pytree_node(cls, namespace=ns)
            except Exception:  # noqa: BLE001
                pass


def _mk_key(v):
    return ('Key', v)


def pred(x):
    P('is_leaf')
    return False


def render(x):  # noqa: C901, PLR0911
    """Hashable rendering of an operation result (leaf identity by Leaf.i)."""
    if isinstance(x, Leaf):
        return f'L{x.i}'
    if isinstance(x, BaseException):
        return ('EXC', type(x).__name__)
    if isinstance(x, optree.PyTreeSpec):
        c = CUR[0]
        CUR[0] = None
        try:
            return ('spec', x.num_leaves, x.num_nodes, x.namespace, tuple(len(p) for p in x.paths()))
        finally:
            CUR[0] = c
    if isinstance(x, dict):
        return ('dict', tuple((render(k), render(v)) for k, v in x.items()))
    if isinstance(x, (list, tuple)):
        return (type(x).__name__, tuple(render(c) for c in x))
    if hasattr(x, 'children') and hasattr(x, 'meta'):
        return ('CX', render(x.meta), tuple(render(c) for c in x.children))
    if hasattr(x, 'v'):
        return (type(x).__name__, x.v)
    if isinstance(x, (int, str, bool, type(None), bytes)):
        return x
    return type(x).__name__


# =============================================================================================
# harnesses: each returns dict(make=callable(ex)->(bodies, ctxdict), check=callable(ex, ctxdict)->problems)


def outcome(fn):
    try:
        return fn()
    except BaseException as ex:  # noqa: BLE001
        return ex


def sequential_results(build, orders=None):
    """All results obtainable by running the harness's operations one after another, in every order."""
    out = set()
    n = len(build(None)[0])
    for order in itertools.permutations(range(n)):
        bodies, c = build(None)
        res = [None] * n
        try:
            for i in order:
                res[i] = render(outcome(bodies[i]))
        finally:
            c['world'].cleanup()
        out.add(tuple(res))
    return out


def sequential_finals(build):
    """(results, final registry observation) for every serial order of an H9 harness."""
    out = set()
    n = len(build(None)[0])
    for order in itertools.permutations(range(n)):
        bodies, c = build(None)
        res = [None] * n
        try:
            for i in order:
                res[i] = render(outcome(bodies[i]))
            out.add((tuple(res), c['final']()))
        finally:
            c['world'].cleanup()
    return out


def H1(variant):
    """flatten-family operations on one shared tree with predicate + custom nodes + instrumented keys."""
    def build(ex):
        w = World()
        CUR[0] = None
        w.register(w.CX, w.fl, w.un)
        L = [Leaf(i) for i in range(5)]
        tree = {w.Key('b'): w.CX([L[0], (L[1],)], w.Meta(1)), w.Key('a'): [L[2], w.CX([L[3]], w.Meta(2))], w.Key('c'): L[4]}
        kw = {'is_leaf': pred, 'namespace': w.ns}
        ops = {
            'flatten': lambda: optree.tree_flatten(tree, **kw),
            'with_path': lambda: optree.tree_flatten_with_path(tree, **kw),
            'iter': lambda: list(optree.tree_iter(tree, **kw)),
            'map': lambda: optree.tree_map(lambda x: (P('mapped-f'), x)[1], tree, **kw),
            'structure': lambda: optree.tree_structure(tree, **kw),
        }
        CUR[0] = ex
        return [ops[v] for v in variant], {'world': w}
    return build


def H2(nconsumers):
    """consumers sharing ONE leaf iterator: every leaf handed out exactly once."""
    def build(ex):
        w = World()
        CUR[0] = None
        w.register(w.CX, w.fl, w.un)
        L = [Leaf(i) for i in range(5)]
        tree = [L[0], w.CX([L[1], {w.Key('k'): L[2]}], None), (L[3], L[4])]
        it = optree.tree_iter(tree, is_leaf=pred, namespace=w.ns)
        got = [[] for _ in range(nconsumers)]

        def consumer(i):
            def run():
                while True:
                    P('before-next')
                    try:
                        x = next(it)
                    except StopIteration:
                        return tuple(got[i])
                    got[i].append(x)
            return run

        CUR[0] = ex
        return [consumer(i) for i in range(nconsumers)], {'world': w, 'got': got, 'leaves': L}
    return build


def H3(variant):
    """hash / repr / == / pickle of ONE shared treespec with instrumented keys and metadata."""
    def build(ex):
        w = World()
        CUR[0] = None
        w.register(w.CX, w.fl, w.un)
        tree = {w.Key('b'): w.CX([Leaf(0)], w.Meta(1)), w.Key('a'): Leaf(1)}
        spec = optree.tree_structure(tree, namespace=w.ns)
        other = optree.tree_structure(tree, namespace=w.ns)
        hash0 = hash(spec)  # computed single-threaded, before any scheduling
        ops = {
            'hash': lambda: 'hash-ok' if hash(spec) == hash0 else ('WRONG-HASH', hash(spec) == 0),
            'repr': lambda: repr(spec),
            'eq': lambda: spec == other,
            'pickle': lambda: len(pickle.dumps(spec.child(1))) > 0,
            'paths': lambda: spec.paths(),
            'unflatten': lambda: spec.unflatten([Leaf(7), Leaf(8)]),
        }
        CUR[0] = ex
        return [ops[v] for v in variant], {'world': w}
    return build


def H4(nthreads):
    """concurrent registration of the same (type, namespace): exactly one succeeds."""
    def build(ex):
        w = World()
        CUR[0] = None

        def reg():
            r = outcome(lambda: optree.register_pytree_node(w.CX, w.fl, w.un, namespace=w.ns))
            return 'ok' if r is w.CX else r

        w.registered.append((w.CX, w.ns))
        CUR[0] = ex
        return [reg for _ in range(nthreads)], {'world': w, 'kind': 'H4'}
    return build


def H5(op):
    """flatten of a tree containing T overlapping register / unregister / re-register of T."""
    def build(ex):
        w = World()
        CUR[0] = None
        L = [Leaf(i) for i in range(4)]
        tree = [w.CX([L[0], L[1]], 'm1'), L[2], w.CX([L[3]], 'm2')]
        if op in ('unregister', 'swap'):
            w.register(w.CX, w.fl, w.un)
        w.registered.append((w.CX, w.ns))

        def flat():
            return optree.tree_flatten(tree, is_leaf=pred, namespace=w.ns)

        def change():
            if op == 'register':
                optree.register_pytree_node(w.CX, w.fl, w.un, namespace=w.ns)
            elif op == 'unregister':
                optree.unregister_pytree_node(w.CX, namespace=w.ns)
            else:
                optree.unregister_pytree_node(w.CX, namespace=w.ns)
                optree.register_pytree_node(w.CX, w.fl2, w.un2, namespace=w.ns)
            return 'changed'

        CUR[0] = ex
        return [flat, change], {'world': w, 'kind': 'H5', 'tree': tree, 'op': op, 'L': L}
    return build


def H6():
    """first-time classification of ONE never-seen namedtuple class from two threads."""
    def build(ex):
        w = World()
        CUR[0] = None

        class Meta6(type):
            def __getattribute__(cls, name):
                if name in ('_fields', '_make', '_asdict', 'n_fields'):
                    P(f'class-attr:{name}')
                return super().__getattribute__(name)

        base = namedtuple('NT6', 'a b')  # noqa: PYI024
        NT = Meta6('NT6m', (base,), {'__slots__': ()})
        inst = NT(Leaf(0), Leaf(1))
        ops = [lambda: optree.tree_flatten(inst), lambda: (optree.is_namedtuple_class(NT), optree.namedtuple_fields(NT)),
               lambda: optree.tree_leaves([inst, inst])]
        CUR[0] = ex
        return ops[:2] if True else ops, {'world': w}
    return build


def H7(hook, other):
    """register(namedtuple class) parked inside a hook the engine reaches, while another thread uses
    the registry: the 'second operation while the first is inside a callback' case."""
    def build(ex):
        w = World()
        CUR[0] = None

        class Meta7(type):
            def __getattribute__(cls, name):
                if hook == 'class-attr' and name in ('_fields', 'n_fields', '_make'):
                    P(f'class-attr:{name}')
                return super().__getattribute__(name)

            def __repr__(cls):
                if hook in ('class-repr', 'dup-repr'):
                    P('class-repr')
                return f'<class {cls.__name__}>'

        base = namedtuple('NT7', 'a b')  # noqa: PYI024
        NT = Meta7('NT7m', (base,), {'__slots__': ()})
        inst = NT(Leaf(0), Leaf(1))
        w.register(w.CX, w.fl, w.un)
        tree = [w.CX([Leaf(2)], 'm'), inst]
        if hook == 'dup-repr':
            with warnings.catch_warnings():
                warnings.simplefilter('ignore')
                w.register(NT, lambda o: (tuple(o), None), lambda m, c: NT(*c))

        def showwarning(*a, **k):
            if hook == 'warning':
                P('showwarning')

        def reg():
            with warnings.catch_warnings():
                warnings.simplefilter('always')
                warnings.showwarning = showwarning
                r = outcome(lambda: optree.register_pytree_node(NT, lambda o: (tuple(o), 'tag'), lambda m, c: NT(*c),
                                                                namespace=w.ns))
            return 'ok' if r is NT else r

        w.registered.append((NT, w.ns))
        others = {
            'flatten': lambda: optree.tree_flatten(tree, namespace=w.ns),
            'get': lambda: optree.register_pytree_node.get(NT, namespace=w.ns) is not None,
            'register-other': lambda: 'ok' if outcome(lambda: optree.register_pytree_node(
                type('Other', (), {}), lambda o: ((), None), lambda m, c: None, namespace='ns17-other')) is not None else 'x',
            'unregister-cx': lambda: type(outcome(lambda: optree.unregister_pytree_node(w.CX, namespace=w.ns))).__name__,
        }
        CUR[0] = ex
        return [reg, others[other]], {'world': w, 'kind': 'H7'}
    return build


def H9(op_a, op_b, hook):
    """two operations on the SAME (type, namespace) key of a namedtuple class whose registration reaches
    Python-level hooks (warning hook / metaclass attribute hook): the pair must behave like one of its two
    serial orders, and afterwards the Python-visible registry must describe what flattening does."""
    def build(ex):
        w = World()
        CUR[0] = None

        class Meta9(type):
            def __getattribute__(cls, name):
                if hook == 'class-attr' and name in ('_fields', 'n_fields'):
                    P(f'class-attr:{name}')
                return super().__getattribute__(name)

        base = namedtuple('NT9', 'a b')  # noqa: PYI024
        NT = Meta9('NT9m', (base,), {'__slots__': ()})
        inst = NT(Leaf(0), Leaf(1))
        fl = lambda o: (tuple(o), 'tag9')  # noqa: E731
        un9 = lambda m, c: NT(*c)  # noqa: E731

        def showwarning(*a, **k):
            if hook == 'warning':
                P('showwarning')

        def quiet(fn):
            def run():
                with warnings.catch_warnings():
                    warnings.simplefilter('always')
                    warnings.showwarning = showwarning
                    r = outcome(fn)
                return ('EXC', type(r).__name__) if isinstance(r, BaseException) else 'ok' if not isinstance(r, (bool, str, tuple)) else r
            return run

        ops = {
            'register': quiet(lambda: optree.register_pytree_node(NT, fl, un9, namespace=w.ns)),
            'unregister': quiet(lambda: optree.unregister_pytree_node(NT, namespace=w.ns)),
            'get': quiet(lambda: optree.register_pytree_node.get(NT, namespace=w.ns).kind.name),
            'flatten': quiet(lambda: optree.tree_structure(inst, namespace=w.ns).kind.name),
        }
        if op_a == 'unregister' or op_b == 'unregister':
            if 'register' not in (op_a, op_b):
                with warnings.catch_warnings():
                    warnings.simplefilter('ignore')
                    optree.register_pytree_node(NT, fl, un9, namespace=w.ns)
        w.registered.append((NT, w.ns))

        def final_state():
            CUR[0] = None
            with warnings.catch_warnings():
                warnings.simplefilter('ignore')
                eng = optree.tree_structure(inst, namespace=w.ns).kind.name
                py = optree.register_pytree_node.get(NT, namespace=w.ns).kind.name
                allpy = optree.register_pytree_node.get(namespace=w.ns).get(NT)
            return (eng, py, 'CUSTOM' if allpy is not None else 'absent')

        CUR[0] = ex
        return [ops[op_a], ops[op_b]], {'world': w, 'kind': 'H9', 'final': final_state}
    return build


def H10(variant):
    """unflatten-family operations through ONE shared treespec whose custom nodes come after an already finished sibling
    (so a half-built result sits on the engine's work stack while the thread is parked in the custom unflatten function);
    every thread feeds its own, distinctly labelled leaves."""
    def build(ex):
        w = World()
        CUR[0] = None
        w.register(w.CX, w.fl, w.un)
        tree = [Leaf(0), w.CX([Leaf(1), (Leaf(2),)], w.Meta(1)), {w.Key('k'): w.CX([Leaf(3)], w.Meta(2))}, Leaf(4)]
        spec = optree.tree_structure(tree, namespace=w.ns)

        def lazy(base):
            for i in range(5):
                P('leaves-iterator')
                yield Leaf(base + i)

        ops = {
            'unflatten-a': lambda: spec.unflatten([Leaf(10 + i) for i in range(5)]),
            'unflatten-b': lambda: spec.unflatten([Leaf(20 + i) for i in range(5)]),
            'unflatten-lazy': lambda: optree.tree_unflatten(spec, lazy(30)),
            'traverse': lambda: spec.traverse([Leaf(40 + i) for i in range(5)], None, lambda x: (P('f_leaf'), x)[1]),
            'walk': lambda: spec.walk([Leaf(50 + i) for i in range(5)], lambda t, d, ch: (P('f_node'), (t.__name__, tuple(ch)))[1]),
            'map-shared-tree': lambda: optree.tree_map(lambda x: (P('mapped-f'), x)[1], tree, namespace=w.ns),
            'flatten_up_to': lambda: spec.flatten_up_to(tree),
        }
        CUR[0] = ex
        return [ops[v] for v in variant], {'world': w}
    return build


def H8():
    """map / unflatten whose custom unflatten re-enters optree, from two threads."""
    def build(ex):
        w = World()
        CUR[0] = None

        def un_reenter(meta, ch):
            P('custom.unflatten')
            ch = list(ch)
            optree.tree_leaves(ch, namespace=w.ns)  # re-enter the engine from a callback
            return w.CX(ch, meta)

        w.register(w.CX, w.fl, un_reenter)
        tree = [w.CX([Leaf(0), w.CX([Leaf(1)], 'i')], 'o'), Leaf(2)]
        spec = optree.tree_structure(tree, namespace=w.ns)
        ops = [lambda: optree.tree_map(lambda x: x, tree, namespace=w.ns),
               lambda: spec.unflatten([Leaf(5), Leaf(6), Leaf(7)])]
        CUR[0] = ex
        return ops, {'world': w}
    return build


def harnesses(tier):
    hs = [
        ('H1:flatten|flatten', H1(('flatten', 'flatten')), 2),
        ('H1:flatten|with_path', H1(('flatten', 'with_path')), 2),
        ('H1:iter|map', H1(('iter', 'map')), 2),
        ('H1:structure|map', H1(('structure', 'map')), 2),
        ('H2:shared-iter-2', H2(2), 2),
        ('H3:hash|repr', H3(('hash', 'repr')), 2),
        ('H3:hash|hash', H3(('hash', 'hash')), 2),
        ('H3:repr|repr', H3(('repr', 'repr')), 2),
        ('H3:eq|pickle', H3(('eq', 'pickle')), 2),
        ('H3:eq|unflatten', H3(('eq', 'unflatten')), 2),
        ('H4:register|register', H4(2), None),
        ('H5:flatten|register', H5('register'), None),
        ('H5:flatten|unregister', H5('unregister'), None),
        ('H5:flatten|swap', H5('swap'), None),
        ('H6:first-classification', H6(), None),
        ('H8:reentrant-unflatten', H8(), 2),
        ('H10:unflatten-a|unflatten-b', H10(('unflatten-a', 'unflatten-b')), 2),
        ('H10:unflatten-a|unflatten-lazy', H10(('unflatten-a', 'unflatten-lazy')), 2),
        ('H10:unflatten-a|traverse', H10(('unflatten-a', 'traverse')), 2),
        ('H10:walk|unflatten-b', H10(('walk', 'unflatten-b')), 2),
        ('H10:map-shared-tree|unflatten-a', H10(('map-shared-tree', 'unflatten-a')), 2),
        ('H10:flatten_up_to|unflatten-a', H10(('flatten_up_to', 'unflatten-a')), 2),
    ]
    for hook in ('warning', 'class-attr', 'class-repr', 'dup-repr'):
        for other in ('flatten', 'get', 'register-other', 'unregister-cx'):
            hs.append((f'H7:{hook}|{other}', H7(hook, other), None))
    for hook in ('warning', 'class-attr'):
        for a, b in (('register', 'unregister'), ('register', 'register'), ('register', 'get'), ('register', 'flatten'),
                     ('unregister', 'unregister'), ('unregister', 'flatten'), ('unregister', 'get')):
            hs.append((f'H9:{hook}:{a}|{b}', H9(a, b, hook), None))
    if tier == 'thorough':
        hs += [
            ('H1:flatten|flatten|structure', H1(('flatten', 'flatten', 'structure')), 2),
            ('H2:shared-iter-3', H2(3), 2),
            ('H3:hash|repr|eq', H3(('hash', 'repr', 'eq')), 2),
            ('H4:register x3', H4(3), None),
            ('H10:unflatten-a|unflatten-b|unflatten-lazy', H10(('unflatten-a', 'unflatten-b', 'unflatten-lazy')), 2),
        ]
        hs = [(n, b, None if bd == 2 and n.count('|') == 1 else bd) for n, b, bd in hs]
    return hs


# =============================================================================================


def run_harness(ctx, name, build, bound):  # noqa: C901
    install_lock()
    seq = None
    if not name.startswith(('H2', 'H4', 'H5', 'H7', 'H6')):
        seq = sequential_results(build)
    seq_final = None
    if name.startswith('H9'):
        seq_final = sequential_finals(build)
    case_base = {'harness': name, 'crash_prefix': f'{name.split(":")[0]}:{name.split(":")[1]}'}
    first_trace = []

    def on_schedule(prefix):
        ctx.checkpoint(name, dict(case_base, schedule=list(prefix)))
        faulthandler.dump_traceback_later(WATCHDOG_S, exit=True)

    def check(ex, c):
        faulthandler.cancel_dump_traceback_later()
        w = c['world']
        CUR[0] = None
        try:
            ctx.count()
            ctx.extra['transitions'] += len(ex.points)
            ctx.extra['traces_validated'] += 1
            n = len(ex.threads)
            res = tuple(render(ex.errors[i]) if i in ex.errors else render(ex.results.get(i)) for i in range(n))
            ctx.sets['states'].add(hash((name, tuple(ex.trace))).to_bytes(8, 'little', signed=True))
            ctx.outcome(f'{name}:{hash(res) % 1000}')
            ctx.cls((name, tuple(ex.choices())))
            case = dict(case_base, schedule=ex.choices())
            key = lambda o: f'{PROP}:{name.split(":")[0]}:{o}'  # noqa: E731
            if ex.deadlock:
                ctx.violation('deadlock', key('scheduler-deadlock'), case, f'{ex.deadlock}; trace {ex.trace[-6:]}')
                return
            if seq is not None and not name.startswith('H9') and res not in seq:
                ctx.violation('not-sequentially-consistent', key('result-not-equal-to-any-sequential-order'), case,
                              f'{res!r} not in {sorted(map(repr, seq))[:4]}')
            if name.startswith('H2'):
                got = [x for g in c['got'] for x in g]
                if sorted(x.i for x in got) != [x.i for x in c['leaves']]:
                    ctx.violation('iterator-exactly-once', key('shared-iterator-exactly-once'), case,
                                  f'consumers got {[[x.i for x in g] for g in c["got"]]}')
            if name.startswith('H4'):
                oks = sum(1 for r in res if r == 'ok')
                bad = [r for r in res if r != 'ok' and r != ('EXC', 'ValueError')]
                if oks != 1 or bad:
                    ctx.violation('register-exactly-once', key('register-exactly-once'), case, repr(res))
            if name.startswith('H5'):
                problems = check_h5(c, ex, res)
                for p in problems:
                    ctx.violation('torn-registration', key('flatten-overlapping-registry-change'), case, p)
            if name.startswith('H9'):
                fin = c['final']()
                if fin[0] == 'CUSTOM' and (fin[1] != 'CUSTOM' or fin[2] != 'CUSTOM') or fin[0] != 'CUSTOM' and (
                        fin[1] == 'CUSTOM' or fin[2] == 'CUSTOM'):
                    ctx.violation('registry-mirror-diverged', key('python-registry-disagrees-with-engine'), case,
                                  f'after both operations: engine flatten kind {fin[0]}, get(cls) {fin[1]}, get()[cls] {fin[2]}')
                elif (res, fin) not in seq_final:
                    ctx.violation('not-sequentially-consistent', key('result-not-equal-to-any-sequential-order'), case,
                                  f'{(res, fin)!r} not in {sorted(map(repr, seq_final))}')
            if name.startswith('H7'):
                if res[0] != 'ok' and c.get('kind') == 'H7' and 'dup-repr' not in name:
                    ctx.violation('register-under-hook', key('register-result'), case, repr(res))
                if 'dup-repr' in name and res[0] != ('EXC', 'ValueError'):
                    ctx.violation('duplicate-register', key('register-result'), case, repr(res))
            if len(ctx.samples) < 5 and len(ex.trace) > 4:
                ctx.sample({'harness': name, 'schedule': ex.choices(), 'trace': [f'{t}:{lab}' for t, lab in ex.trace[:14]]})
        finally:
            w.cleanup()

    # determinism gate: the default schedule replayed twice gives the same trace
    for _ in range(2):
        ex = sched.Execution([])
        bodies, c = build(ex)
        faulthandler.dump_traceback_later(WATCHDOG_S, exit=True)
        ctx.checkpoint(name, dict(case_base, schedule=[]))
        ex.run(bodies)
        faulthandler.cancel_dump_traceback_later()
        c['world'].cleanup()
        first_trace.append(tuple(ex.trace))
    if first_trace[0] != first_trace[1]:
        ctx.violation('harness:nondeterministic-schedule', f'{PROP}:harness', case_base,
                      f'{first_trace[0][:8]} vs {first_trace[1][:8]}')
        return
    stats = sched.explore(build, check, bound, on_schedule=on_schedule,
                          max_schedules=200000 if ctx.tier == 'thorough' else 30000)
    ctx.extra[f'schedules:{name}'] += stats['schedules']
    ctx.extra[f'max-points:{name}'] = max(ctx.extra[f'max-points:{name}'], stats['max_points'])
    if not stats['complete']:
        ctx.notes.append(f'{name}: schedule cap hit after {stats["schedules"]} schedules (bound {bound})')
    else:
        ctx.notes.append(f'{name}: ALL {stats["schedules"]} schedules within preemption bound {bound} '
                         f'({"unbounded" if bound is None else bound}) explored; distinct traces {len(stats["distinct_traces"])}')


def check_h5(c, ex, res):
    """A flatten overlapping a registry change sees, per custom node, the old or the new registration."""
    flat = res[0]
    problems = []
    if flat and flat[0] == 'EXC':
        return [f'flatten raised {flat}']
    # leaves per node under: leaf (unregistered) / v1 / v2
    per_node = {
        0: {'leaf': ['CX0'], 'v1': ['L0', 'L1'], 'v2': ['L1', 'L0']},
        2: {'leaf': ['CX2'], 'v1': ['L3'], 'v2': ['L3']},
    }
    allowed_states = {'register': ('leaf', 'v1'), 'unregister': ('v1', 'leaf'), 'swap': ('v1', 'leaf', 'v2')}[c['op']]
    ok = False
    tup = flat[1] if isinstance(flat, tuple) and flat[0] == 'tuple' else None
    if tup is None:
        return [f'unexpected flatten result {flat!r}']
    leaves = tup[0]
    got = [x if isinstance(x, str) else 'CX' for x in leaves[1]]
    for a in allowed_states:
        for b in allowed_states:
            want = []
            want += [x if x.startswith('L') else 'CX' for x in per_node[0][a]]
            want += ['L2']
            want += [x if x.startswith('L') else 'CX' for x in per_node[2][b]]
            if got == want:
                ok = True
    if not ok:
        problems.append(f'flatten leaves {got!r} match no per-node combination of {allowed_states}')
    return problems


def run_shard(ctx):
    sys.setswitchinterval(1e-6)
    hs = harnesses(ctx.tier)
    for i, (name, build, bound) in enumerate(hs):
        if ctx.mine(i):
            if ctx.skipped(name):
                continue
            run_harness(ctx, name, build, bound)


def replay(case, ctx):
    c = case['case']
    for name, build, bound in harnesses('thorough'):
        if name == c['harness']:
            run_harness(ctx, name, build, bound)


_ = outcome_of
