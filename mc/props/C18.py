"""C18  The Python twins of engine logic give the same answers as the engine (E1 + E2 histories)."""

from __future__ import annotations

import gc
import itertools
import os
import sys
import time
from collections import OrderedDict, defaultdict, deque, namedtuple

import optree
from optree.utils import total_order_sorted

from mc import e1, explore, gen
from mc import universe as un
from mc.e1 import outcome_of
from mc.universe import Leaf

PROP = 'C18'

FUNCS = ('is_namedtuple', 'is_namedtuple_instance', 'is_namedtuple_class', 'namedtuple_fields',
         'is_structseq', 'is_structseq_instance', 'is_structseq_class', 'structseq_fields')


# =============================================================================================
# (1) class universe


class StrSub(str):
    __slots__ = ()


class TupleSubF(tuple):
    __slots__ = ()


class IntSub(int):
    pass


def class_universe():  # noqa: C901
    """name -> (class, optional instance)."""
    U = {}
    NT = namedtuple('NT', 'a b')  # noqa: PYI024
    U['namedtuple'] = NT
    U['namedtuple-empty'] = namedtuple('NTE', '')  # noqa: PYI024
    U['namedtuple-subclass'] = type('NTS', (NT,), {'__slots__': ()})
    import typing  # noqa: PLC0415

    U['typing-namedtuple'] = typing.NamedTuple('TNT', [('x', int), ('y', int)])
    # classes for which cls(*xs), cls._make(xs) and tuple.__new__(cls, xs) are three different things
    U['namedtuple-converting-new'] = type('NTC', (NT,), {
        '__slots__': (), '__new__': lambda cls, a, b: NT.__new__(cls, b, a)})

    def _validating_new(cls, a, b):
        if a is not b and not (isinstance(a, int) and isinstance(b, int) and a <= b):
            raise ValueError('a <= b required')
        return NT.__new__(cls, a, b)

    U['namedtuple-validating-new'] = type('NTV', (NT,), {'__slots__': (), '__new__': _validating_new})
    U['namedtuple-own-_make'] = type('NTM', (NT,), {
        '__slots__': (), '_make': classmethod(lambda cls, it: NT.__new__(cls, *reversed(list(it))))})

    def lookalike(name, **attrs):
        base = {'_fields': ('a', 'b'), '_make': classmethod(lambda cls, it: cls(it)),
                '_asdict': lambda self: {}, '__slots__': ()}
        for k, v in attrs.items():
            if v is _ABSENT:
                base.pop(k, None)
            else:
                base[k] = v
        return type(name, (tuple,), base)

    U['lookalike-complete'] = lookalike('LA')
    U['_fields-absent'] = lookalike('LA1', _fields=_ABSENT)
    U['_fields-list'] = lookalike('LA2', _fields=['a', 'b'])
    U['_fields-tuple-subclass'] = lookalike('LA3', _fields=TupleSubF(('a', 'b')))
    U['_fields-non-str-member'] = lookalike('LA4', _fields=('a', 1))
    U['_fields-str-subclass-member'] = lookalike('LA5', _fields=('a', StrSub('b')))
    U['_fields-empty'] = lookalike('LA6', _fields=())
    U['_fields-none'] = lookalike('LA7', _fields=None)
    U['_make-absent'] = lookalike('LA8', _make=_ABSENT)
    U['_make-non-callable'] = lookalike('LA9', _make=5)
    U['_asdict-absent'] = lookalike('LA10', _asdict=_ABSENT)
    U['_asdict-non-callable'] = lookalike('LA11', _asdict='x')
    U['_fields-property'] = lookalike('LA12', _fields=property(lambda self: ('a',)))
    U['not-tuple-subclass'] = type('LA13', (list,), {'_fields': ('a',), '_make': classmethod(lambda c, i: c(i)),
                                                      '_asdict': lambda s: {}})
    U['plain-object-with-fields'] = type('LA14', (), {'_fields': ('a',), '_make': len, '_asdict': len})

    class MetaRaises(type):
        def __getattr__(cls, name):
            if name == '_fields':
                raise RuntimeError('boom in metaclass')
            raise AttributeError(name)

    U['metaclass-getattr-raises'] = MetaRaises('LA15', (tuple,), {'__slots__': ()})
    # struct sequences
    U['structseq-terminal_size'] = os.terminal_size
    U['structseq-struct_time'] = time.struct_time
    U['structseq-float_info'] = type(sys.float_info)
    U['structseq-version_info'] = type(sys.version_info)
    U['structseq-stat_result'] = os.stat_result

    def seqlike(name, bases=(tuple,), **attrs):
        base = {'n_fields': 2, 'n_sequence_fields': 2, 'n_unnamed_fields': 0, '__slots__': ()}
        for k, v in attrs.items():
            if v is _ABSENT:
                base.pop(k, None)
            else:
                base[k] = v
        return type(name, bases, base)

    U['tuple-subclass-with-n_fields'] = seqlike('SL0')
    U['n_fields-absent'] = seqlike('SL1', n_fields=_ABSENT)
    U['n_fields-bool'] = seqlike('SL2', n_fields=True)
    U['n_fields-int-subclass'] = seqlike('SL3', n_fields=IntSub(2))
    U['n_fields-float'] = seqlike('SL4', n_sequence_fields=2.0)
    U['n_unnamed-absent'] = seqlike('SL5', n_unnamed_fields=_ABSENT)
    U['structseq-like-two-bases'] = type('SL6', (TupleSubF,), {'n_fields': 2, 'n_sequence_fields': 2,
                                                               'n_unnamed_fields': 0})
    # plain things
    U['tuple'] = tuple
    U['list'] = list
    U['dict'] = dict
    U['int'] = int
    U['object'] = object
    U['type'] = type
    U['NoneType'] = type(None)
    return U


_ABSENT = object()


def instances_of(name, cls):
    out = []
    try:
        if name.startswith('structseq-'):
            n = cls.n_sequence_fields
            out.append(cls(tuple(range(max(n, getattr(cls, 'n_fields', n)))) if name != 'structseq-terminal_size' else (1, 2)))
        elif issubclass(cls, tuple) and cls is not tuple:
            nf = getattr(cls, '_fields', None)
            k = len(nf) if isinstance(nf, (tuple, list)) else 2
            try:
                out.append(cls(*range(k)))
            except TypeError:
                out.append(cls(range(k)))
        elif cls in (int, list, dict, tuple, object):
            out.append(cls())
        elif cls is type(None):
            out.append(None)
    except Exception:  # noqa: BLE001
        pass
    return out


def compare_funcs(ctx, label, x, keyf):
    for fname in FUNCS:
        f = getattr(optree, fname, None) or getattr(optree.typing, fname)
        py = f.__python_implementation__
        cx = f.__cxx_implementation__
        ctx.count()
        a = outcome_of(lambda: cx(x))
        b = outcome_of(lambda: py(x))
        c = outcome_of(lambda: f(x))
        ctx.outcome(f'{fname}:{a[0] if a[0] == "exc" else type(a[1]).__name__}')
        if a != b or a != c:
            ctx.violation(f'twin:{fname}', keyf(fname, label), {'class': label, 'func': fname},
                          f'{fname}({label}): engine {a!r}, python twin {b!r}, public {c!r}')


def part_classes(ctx):
    uni = class_universe()
    for i, (name, cls) in enumerate(uni.items()):
        if not ctx.mine(i):
            continue
        keyf = lambda fname, label: (  # noqa: E731
            f'{PROP}:twin:{fname}:{label.split("/")[0]}')
        compare_funcs(ctx, name, cls, keyf)
        ctx.cls(('class', name))
        for inst in instances_of(name, cls):
            compare_funcs(ctx, name + '/instance', inst, keyf)
        # flatten classification agrees with the twins too
        for inst in instances_of(name, cls):
            ctx.count()
            r = outcome_of(lambda: optree.tree_structure(inst).kind.name)
            want_nt = optree.is_namedtuple_class.__python_implementation__(cls)
            want_ss = optree.is_structseq_class.__python_implementation__(cls)
            if r[0] == 'ok' and cls not in (tuple, list, dict, type(None)):
                want = 'STRUCTSEQUENCE' if want_ss else 'NAMEDTUPLE' if want_nt else 'LEAF'
                if r[1] != want:
                    ctx.violation('flatten-vs-twin', f'{PROP}:flatten-vs-twin:{name}', {'class': name},
                                  f'flatten kind {r[1]} but twins say {want}')
        # one-level flattening of the instance through the Python registry vs the engine (children, type, kind,
        # entries, and the unflatten function's RESULT for the same and for fresh children)
        for inst in instances_of(name, cls):
            for nil in (False, True):
                instance_one_level(ctx, name, inst, nil)
    for i, x in enumerate([5, 'a', None, (1, 2), [1], object(), 3.5, len]):
        if ctx.mine(i):
            compare_funcs(ctx, f'non-class:{type(x).__name__}', x,
                          lambda fname, label: f'{PROP}:twin:{fname}:{label}')


def instance_one_level(ctx, name, inst, nil):
    ctx.count()
    case = {'class': name, 'none_is_leaf': nil, 'op': 'one-level'}
    eng = outcome_of(lambda: optree.tree_flatten(inst, is_leaf=lambda x: x is not inst, none_is_leaf=nil))
    tw = outcome_of(lambda: optree.tree_flatten_one_level(inst, none_is_leaf=nil))
    if eng[0] != 'ok':
        return
    kids, spec = eng[1]
    if spec.is_leaf():
        if tw != ('exc', 'ValueError'):
            ctx.violation('one-level-instance', f'{PROP}:one-level-instance:leaf-accepted', case, repr(tw)[:300])
        return
    if tw[0] != 'ok':
        ctx.violation('one-level-instance', f'{PROP}:one-level-instance:twin-raises', case, repr(tw))
        return
    out = tw[1]
    problems = []
    if len(out.children) != len(kids) or any(a is not b for a, b in zip(out.children, kids)):
        problems.append(f'children {out.children!r} vs engine {kids!r}')
    if out.type is not spec.type or out.kind != spec.kind:
        problems.append(f'type/kind {out.type} {out.kind} vs {spec.type} {spec.kind}')
    if tuple(out.entries) != tuple(spec.entries()):
        problems.append(f'entries {out.entries!r} vs {spec.entries()!r}')
    for label, children in (('same', list(kids)), ('reversed', list(reversed(kids))), ('fresh', [object() for _ in kids])):
        def shape(r):
            if r[0] != 'ok':
                return r
            v = r[1]
            return ('ok', type(v), tuple(id(x) for x in v) if isinstance(v, tuple) else repr(v))
        r1 = shape(outcome_of(lambda: out.unflatten_func(out.metadata, list(children))))
        r2 = shape(outcome_of(lambda: spec.unflatten(list(children))))
        if r1 != r2:
            problems.append(f'unflatten[{label}] twin {r1!r} vs engine {r2!r}')
    for p in problems:
        ctx.violation('one-level-instance', f'{PROP}:one-level-instance:{p.split(" ")[0]}', case, f'{name}: {p}')


# =============================================================================================
# (2) total order sort


class NoLt:
    def __init__(self, n):
        self.n = n

    def __hash__(self):
        return hash(('NoLt', self.n))

    def __eq__(self, o):
        return isinstance(o, NoLt) and o.n == self.n

    def __repr__(self):
        return f'NoLt({self.n})'


class LtRaises:
    def __init__(self, n):
        self.n = n

    def __hash__(self):
        return hash(('LtRaises', self.n))

    def __eq__(self, o):
        return isinstance(o, LtRaises) and o.n == self.n

    def __lt__(self, o):
        raise ZeroDivisionError('lt')

    def __repr__(self):
        return f'LtRaises({self.n})'


KPoint = namedtuple('KPoint', 'x y')  # noqa: PYI024  (a tuple subclass: related to plain tuple keys)


class BaseKey:
    def __init__(self, n):
        self.n = n

    def __hash__(self):
        return hash((type(self).__name__, self.n))

    def __eq__(self, o):
        return type(o) is type(self) and o.n == self.n

    def __lt__(self, o):
        if type(o) is not type(self):
            return NotImplemented  # orderable only within the exact class
        return self.n < o.n

    def __repr__(self):
        return f'{type(self).__name__}({self.n})'


class DerivedKey(BaseKey):
    pass


class AKey(BaseKey):  # sorts BEFORE BaseKey by qualified name although it is a subclass
    pass


def key_pool():
    return [KPoint(1, 2), BaseKey(1), DerivedKey(2), AKey(3), BaseKey(0), 1, 2, 1.5, -1, 'a', 'b', None, (1, 2), (1, 'a'), ('a',), True, frozenset({1}), frozenset({2}),
            NoLt(1), NoLt(2), LtRaises(1), b'x', 2 + 1j]


def part_sort(ctx, max_len):
    pool = key_pool()
    idx = 0
    for n in range(0, max_len + 1):
        for combo in itertools.permutations(range(len(pool)), n):
            idx += 1
            if not ctx.mine(idx):
                continue
            keys = [pool[i] for i in combo]
            d = dict.fromkeys(keys, 0)
            if len(d) != len(keys):
                continue  # 1 / True / 1.0 style collisions: not a key list of this dict
            ctx.count()
            a = outcome_of(lambda: optree.tree_structure(d).entries())
            b = outcome_of(lambda: total_order_sorted(list(d)))
            dd = outcome_of(lambda: optree.tree_structure(defaultdict(int, d)).entries())
            it = outcome_of(lambda: [k for k, _ in zip(_keys_via_iter(d), range(99))])
            ok = (a[0] == b[0] and (a[1] == b[1] if a[0] == 'exc' else _same_keys(a[1], b[1])))
            ok = ok and dd[0] == a[0] and (dd[0] == 'exc' or _same_keys(dd[1], a[1]))
            ok = ok and it[0] == a[0] and (it[0] == 'exc' or _same_keys(it[1], a[1]))
            ctx.outcome(f'sort:{a[0] if a[0] == "exc" else "ok"}')
            if len(keys) >= 2:
                ctx.cls(('sort', combo))
            if not ok:
                ctx.violation('total-order-sort', f'{PROP}:total-order-sort', {'keys': [repr(k) for k in keys]},
                              f'keys {keys!r}: engine {a!r}, defaultdict {dd!r}, iter {it!r}, total_order_sorted {b!r}')


def _keys_via_iter(d):
    paths = optree.tree_paths(d)
    return [p[0] for p in paths]


def _same_keys(a, b):
    return len(a) == len(b) and all(x is y or (type(x) is type(y) and x == y) for x, y in zip(a, b))


# =============================================================================================
# (3) one-level flatten through the Python registry vs the engine


def loose_same(a, b, U):
    """Structural equality; dict / defaultdict key *order* is not demanded of the Python-side unflatten
    functions (they rebuild from the sorted key list)."""
    if a is b:
        return True
    if type(a) is not type(b):
        return False
    if isinstance(a, (dict,)):
        if type(a) is OrderedDict and list(a) != list(b):
            return False
        if isinstance(a, defaultdict) and a.default_factory is not b.default_factory:
            return False
        return set(map(id, a.values())) == set(map(id, b.values())) and a.keys() == b.keys() and all(
            a[k] is b[k] for k in a)
    if isinstance(a, deque):
        return a.maxlen == b.maxlen and len(a) == len(b) and all(x is y for x, y in zip(a, b))
    if isinstance(a, (tuple, list)):
        return len(a) == len(b) and all(x is y for x, y in zip(a, b))
    reg = U.any_reg(type(a))
    if reg is not None:
        fa, fb = reg.flatten(a), reg.flatten(b)
        ca, cb = list(fa[0]), list(fb[0])  # children may be a one-shot iterator
        return fa[1] == fb[1] and len(ca) == len(cb) and all(x is y or loose_same(x, y, U) for x, y in zip(ca, cb))
    return False


def one_level_case(ctx, tree, leaves0, dsl, cfg):
    U, R = e1.universe()
    ns, nil = cfg['ns'], cfg['nil']
    case = {'tree': dsl, 'cfg': cfg}
    keyf = lambda o: f'{PROP}:one-level:{o}'  # noqa: E731
    ctx.count()
    kind, reg = R.classify(tree, nil, ns, None)
    tw = outcome_of(lambda: optree.tree_flatten_one_level(tree, none_is_leaf=nil, namespace=ns))
    if kind == 'leaf':
        if tw != ('exc', 'ValueError'):
            ctx.violation('leaf-accepted', keyf('leaf'), case, repr(tw)[:300])
        ctx.outcome('one-level:leaf')
        return
    if tw[0] != 'ok':
        ctx.violation('twin-raises', keyf('twin-raises'), case, repr(tw))
        return
    out = tw[1]
    # engine's one-level view: every direct child forced to be a leaf
    kids, spec = optree.tree_flatten(tree, is_leaf=lambda x: x is not tree, none_is_leaf=nil, namespace=ns)
    raw = spec.walk(kids, lambda t, data, ch: (t, data, ch))
    ctx.cls((kind, type(tree).__qualname__, ns, nil, cfg['mode'], len(kids)))
    ctx.outcome(f'one-level:{kind}')
    problems = []
    if len(out.children) != len(kids) or any(a is not b for a, b in zip(out.children, kids)):
        problems.append(f'children {out.children!r} vs engine {kids!r}')
    e_type, e_meta, _ = raw if spec.num_nodes > 1 or spec.kind.name != 'LEAF' else (None, None, None)
    if out.type is not e_type:
        problems.append(f'type {out.type} vs {e_type}')
    if out.kind != spec.kind:
        problems.append(f'kind {out.kind} vs {spec.kind}')
    eng_entries = tuple(spec.entries())
    if len(out.entries) != len(eng_entries) or not all(type(a) is type(b) and a == b for a, b in zip(out.entries, eng_entries)):
        problems.append(f'entries {out.entries!r} vs {eng_entries!r}')
    if kind != 'none' and not _meta_equal(out.metadata, e_meta):
        problems.append(f'metadata {out.metadata!r} vs engine {e_meta!r}')
    if kids:
        acc = spec.accessors()[0][0]
        tw_entry = out.path_entry_type(out.entries[0], out.type, out.kind)
        if type(tw_entry) is not type(acc) or tw_entry != acc:
            problems.append(f'path entry {tw_entry!r} vs engine {acc!r}')
    if not (type(tree) is U.P):
        r1 = outcome_of(lambda: out.unflatten_func(out.metadata, list(out.children)))
        r2 = outcome_of(lambda: spec.unflatten(kids))
        if r1[0] != r2[0] or (r1[0] == 'ok' and not loose_same(r1[1], r2[1], U)):
            problems.append(f'unflatten {r1!r} vs engine {r2!r}')
    for p in problems:
        ctx.violation('one-level', keyf(p.split(' ')[0]), case, p)


def _meta_equal(a, b):
    if a is b:
        return True
    try:
        return type(a) is type(b) and a == b
    except Exception:  # noqa: BLE001
        return False


# =============================================================================================
# (4) cache histories


class CacheSystem(explore.System):
    name = 'classification-caches'
    KINDS = ('namedtuple', 'lookalike-not-nt', 'plain-tuple-subclass', 'structseq-like')

    def initial(self):
        return ((), False)  # (live classes: tuple of (slot, kind)), flooded?

    def events(self, state):
        live, flooded = state
        evs = []
        if len(live) < 2:
            for k in self.KINDS:
                evs.append(('create', k))
        for slot, _ in live:
            evs.append(('query', slot))
            evs.append(('drop', slot))
        evs.append(('flood',) if not flooded else ('release-flood',))
        return evs

    def step(self, state, ev):
        live, flooded = state
        if ev[0] == 'create':
            slot = 0 if not any(s == 0 for s, _ in live) else 1
            return (tuple(sorted((*live, (slot, ev[1])))), flooded), 'ok'
        if ev[0] == 'drop':
            return (tuple(x for x in live if x[0] != ev[1]), flooded), 'ok'
        if ev[0] == 'flood':
            return (live, True), 'ok'
        if ev[0] == 'release-flood':
            return (live, False), 'ok'
        return state, 'ok'

    @staticmethod
    def make(kind, n):
        if kind == 'namedtuple':
            return namedtuple(f'H{n}', 'a b')  # noqa: PYI024
        if kind == 'lookalike-not-nt':
            return type(f'H{n}', (tuple,), {'_fields': ['a'], '_make': len, '_asdict': len, '__slots__': ()})
        if kind == 'plain-tuple-subclass':
            return type(f'H{n}', (tuple,), {'__slots__': ()})
        return type(f'H{n}', (tuple,), {'n_fields': 2, 'n_sequence_fields': 2, 'n_unnamed_fields': 0, '__slots__': ()})

    def execute(self, history, ev, src, dst, expected):
        problems = []
        slots = {}
        flood = []
        dropped_ids = {}
        counter = [0]
        reuse = 0

        def apply(e):
            nonlocal flood, reuse
            if e[0] == 'create':
                slot = 0 if 0 not in slots else 1
                counter[0] += 1
                cls = self.make(e[1], counter[0])
                if id(cls) in dropped_ids and dropped_ids[id(cls)] != e[1]:
                    reuse += 1
                slots[slot] = (cls, e[1])
            elif e[0] == 'query':
                cls, _ = slots[e[1]]
                optree.is_namedtuple_class(cls)
                optree.is_structseq_class(cls)
                optree.tree_leaves(_inst(cls))
            elif e[0] == 'drop':
                cls, k = slots.pop(e[1])
                dropped_ids[id(cls)] = k
                del cls
                gc.collect()
            elif e[0] == 'flood':
                flood = [namedtuple(f'F{i}', 'x')  for i in range(4200)]  # noqa: PYI024
                for c in flood:
                    optree.is_namedtuple_class(c)
                    optree.is_structseq_class(c)
            elif e[0] == 'release-flood':
                flood = []
                gc.collect()

        for h in history:
            apply(h)
        apply(ev)
        self_reuse = reuse
        for slot, (cls, kind) in slots.items():
            want_nt = kind == 'namedtuple'
            got = outcome_of(lambda cls=cls: (
                optree.is_namedtuple_class(cls), optree.is_structseq_class(cls),
                optree.is_namedtuple_class.__python_implementation__(cls),
                optree.is_structseq_class.__python_implementation__(cls),
                optree.tree_structure(_inst(cls)).kind.name))
            want = ('ok', (want_nt, False, want_nt, False, 'NAMEDTUPLE' if want_nt else 'LEAF'))
            if got != want:
                problems.append(('cache-history', f'after {[*history, ev]}: class of kind {kind} classified {got}, '
                                 f'expected {want} (address reuse events: {self_reuse})', f'{PROP}:cache-history'))
            if kind == 'namedtuple' and outcome_of(lambda cls=cls: optree.namedtuple_fields(cls)) != ('ok', cls._fields):
                problems.append(('cache-history-fields', f'after {[*history, ev]}: namedtuple_fields -> '
                                 f'{outcome_of(lambda cls=cls: optree.namedtuple_fields(cls))!r}', f'{PROP}:cache-history'))
        CacheSystem.reuse_seen += self_reuse
        del flood
        slots.clear()
        gc.collect()
        return problems

    reuse_seen = 0


def _inst(cls):
    try:
        return cls(1, 2)
    except TypeError:
        return cls((1, 2))


def _cheap_class(kind, n):
    if kind == 'nt':  # satisfies every namedtuple trait
        return type(f'Q{n}', (tuple,), {'_fields': ('a',), '_make': classmethod(lambda c, it: c(it)),
                                        '_asdict': lambda self: {}, '__slots__': ()})
    return type(f'Q{n}', (tuple,), {'_fields': ['a'], '_make': len, '_asdict': len, '__slots__': ()})


def capacity_scenarios():
    out = []
    for first in ('nt', 'not-nt'):
        for fill in (4000, 4096, 4097, 4300):
            for rounds in (1, 2):
                out.append({'capacity': first, 'fill': fill, 'rounds': rounds})
    return out


def capacity_scenario(ctx, c):
    """Fill the classification caches to (around) their capacity with live classes of one kind, free
    them all, then create a larger population of the OPPOSITE kind (re-using the freed addresses) and
    demand engine == twin == ground truth for every one of them; repeat in alternation."""
    ctx.count()
    ctx.cls(tuple(sorted(c.items())))
    kinds = [c['capacity'], 'not-nt' if c['capacity'] == 'nt' else 'nt']
    n = 0
    seen_ids = {}
    reuse = 0
    bad = []
    for r in range(2 * c['rounds']):
        kind = kinds[r % 2]
        count = c['fill'] if r == 0 else 6000
        live = []
        for _ in range(count):
            n += 1
            cls = _cheap_class(kind, n)
            if seen_ids.get(id(cls), kind) != kind:
                reuse += 1
            live.append(cls)
        for cls in live:
            want = kind == 'nt'
            got = (optree.is_namedtuple_class(cls), optree.is_namedtuple_class.__python_implementation__(cls),
                   optree.is_structseq_class(cls), optree.tree_structure(cls((1,))).kind.name)
            if got != (want, want, False, 'NAMEDTUPLE' if want else 'LEAF'):
                bad.append((r, kind, got))
        for cls in live:
            seen_ids[id(cls)] = kind
        del live, cls
        gc.collect()
    ctx.extra['address-reuse-events-observed'] += reuse
    ctx.extra['capacity-classes-created'] += n
    if bad:
        ctx.violation('cache-capacity', f'{PROP}:cache-history', c,
                      f'{len(bad)} classes misclassified after the caches were filled and the classes freed '
                      f'(address reuse across kinds observed {reuse} times): first {bad[:3]}')
    ctx.outcome(f'capacity:reuse>0={reuse > 0}')


def run_shard(ctx):
    for i, c in enumerate(capacity_scenarios()):
        if ctx.mine(i):
            capacity_scenario(ctx, c)
    part_classes(ctx)
    part_sort(ctx, 3 if ctx.tier == 'quick' else 4)
    cfgs = e1.configs(ctx.tier, predicates=['none'])
    idx = 0
    U, _ = e1.universe()
    for dsl in gen.cell_singles(True):
        idx += 1
        if not ctx.mine(idx):
            continue
        tree, leaves = gen.build(dsl, U)
        for mode in ('sorted', 'ins_ns', 'ins_global'):
            with un.dict_mode(mode):
                for cfg in cfgs:
                    if cfg['mode'] == mode:
                        one_level_case(ctx, tree, leaves, dsl, cfg)
    explore.all_histories(ctx, CacheSystem(), 4 if ctx.tier == 'quick' else 5, label='caches')
    ctx.extra['address-reuse-events-observed'] += CacheSystem.reuse_seen
    if ctx.shard == 0:
        ctx.sample({'class-universe': list(class_universe())[:12], 'key-pool': [repr(k) for k in key_pool()]})


def replay(case, ctx):
    ctx.nshards, ctx.shard = 1, 0
    run_shard(ctx)


_ = Leaf
