"""C19  optree dataclasses and optree partial are faithful pytree nodes (E1)."""

from __future__ import annotations

import dataclasses as std
import functools
import inspect
import itertools

import optree
from optree.registry import __GLOBAL_NAMESPACE as GLOBAL  # noqa: N811

from mc import e1, gen
from mc.e1 import outcome_of
from mc.oracle import why_different
from mc.universe import Leaf

PROP = 'C19'
NS = 'ns19'

FIELD_OPTS_FULL = list(itertools.product(('none', 'value', 'factory'), (True, False), (None, True, False), (False, True)))
FIELD_OPTS_SMALL = list(itertools.product(('none', 'value', 'factory'), (True, False), (None, False), (False,)))
CLASS_FLAGS = [
    {}, {'frozen': True}, {'slots': True}, {'kw_only': True}, {'eq': False}, {'order': True}, {'unsafe_hash': True},
    {'repr': False}, {'init': False}, {'frozen': True, 'slots': True}, {'order': True, 'frozen': True},
    {'match_args': False}, {'weakref_slot': True, 'slots': True},
]
FORMS = ('decorator', 'call', 'make_dataclass', 'make_dataclass-generator')  # fields as a list / a one-shot generator


def make_field(kind, opt):
    default, init, pytree_node, kw_only = opt
    kw = {'init': init}
    if default == 'value':
        kw['default'] = 7
    elif default == 'factory':
        kw['default_factory'] = list
    if kw_only:
        kw['kw_only'] = True
    if kind == 'optree':
        return lambda: optree.dataclasses.field(pytree_node=pytree_node, **kw)
    md = {} if pytree_node is None else {'pytree_node': pytree_node}
    return lambda: std.field(metadata=md, **kw)


class Counter:
    n = 0


def build_class(kind, name, opts, flags, form, base=None, post_init=True):
    """Create the class either with optree.dataclasses (kind='optree') or the stdlib (kind='std')."""
    names = [f'f{i}' for i in range(len(opts))]
    ns = {'__annotations__': {n: object for n in names}}
    for n, o in zip(names, opts):
        ns[n] = make_field(kind, o)()
    if post_init:
        def __post_init__(self):
            type(self).post_inits = getattr(type(self), 'post_inits', 0) + 1
        ns['__post_init__'] = __post_init__
    bases = (base,) if base is not None else ()
    if form.startswith('make_dataclass'):
        fields = [(n, object, ns[n]) for n in names]
        if form == 'make_dataclass-generator':
            fields = (f for f in fields)
        extra = {'__post_init__': ns['__post_init__']} if post_init else {}
        if kind == 'optree':
            return optree.dataclasses.make_dataclass(name, fields, bases=bases, ns=extra, namespace=NS, **flags)
        return std.make_dataclass(name, fields, bases=bases, namespace=extra, **flags)
    cls = type(name, bases, ns)
    if kind == 'optree':
        if form == 'decorator':
            return optree.dataclasses.dataclass(namespace=NS, **flags)(cls)
        return optree.dataclasses.dataclass(cls, namespace=NS, **flags)
    return std.dataclass(**flags)(cls) if form == 'decorator' else std.dataclass(cls, **flags)


def describe(cls):
    fs = std.fields(cls)
    sig = outcome_of(lambda: str(inspect.signature(cls)))
    return {
        'fields': [(f.name, f.init, f.repr, f.compare, f.kw_only, f.default is not std.MISSING,
                    f.default_factory is not std.MISSING) for f in fs],
        'signature': sig,
        'params': cls.__dataclass_params__ and tuple(
            getattr(cls.__dataclass_params__, a) for a in ('init', 'repr', 'eq', 'order', 'unsafe_hash', 'frozen')),
        'slots': '__slots__' in cls.__dict__,
        'match_args': getattr(cls, '__match_args__', None),
        'hash': cls.__dict__.get('__hash__', 'inherit') is None,
    }


def unregister(cls):
    try:
        optree.unregister_pytree_node(cls, namespace=NS)
    except Exception:  # noqa: BLE001
        pass


def classify(flags, form, detail):
    if form.startswith('make_dataclass') and 'Cannot overwrite attribute' in detail and (
        flags.get('order') or flags.get('unsafe_hash') or flags.get('frozen')):
        return f'{PROP}:make_dataclass:order-unsafe_hash-frozen:TypeError-cannot-overwrite-attribute'
    return None


def check_layout(ctx, opts, flags, form, inherit):  # noqa: C901, PLR0912, PLR0915
    U, _ = e1.universe()
    case = {'opts': [list(o) for o in opts], 'flags': flags, 'form': form, 'inherit': inherit}
    ctx.count()
    Counter.n += 1
    name = f'D{Counter.n}'
    base_o = base_s = None
    created = []
    try:
        if inherit == 'optree-base':
            base_o = build_class('optree', name + 'B', [('none', True, None, False)], {}, 'call', post_init=False)
            created.append(base_o)
            base_s = build_class('std', name + 'B', [('none', True, None, False)], {}, 'call', post_init=False)
        elif inherit == 'std-base':
            base_o = build_class('std', name + 'B', [('none', True, None, False)], {}, 'call', post_init=False)
            base_s = build_class('std', name + 'B', [('none', True, None, False)], {}, 'call', post_init=False)
        ro = outcome_of(lambda: build_class('optree', name, opts, flags, form, base_o))
        rs = outcome_of(lambda: build_class('std', name, opts, flags, form, base_s))
        # documented optree-only rejection: a pytree-node field that is not in __init__
        non_init_node = any((not o[1]) and o[2] is True for o in opts)
        implicit_non_init_node = any((not o[1]) and o[2] is None for o in opts)
        if ro[0] == 'ok':
            created.append(ro[1])
        if non_init_node:
            if ro != ('exc', 'TypeError'):
                ctx.violation('non-init-pytree-node-accepted', f'{PROP}:non-init-pytree-node', case, repr(ro))
            ctx.outcome('rejected:non-init-node')
            return
        if rs[0] == 'exc':
            if ro[0] != 'exc' or ro[1] != rs[1]:
                ctx.violation('stdlib-rejects-optree-accepts', f'{PROP}:rejection-parity', case, f'optree {ro!r} stdlib {rs!r}')
            ctx.outcome(f'rejected:{rs[1]}')
            return
        if implicit_non_init_node:
            if ro != ('exc', 'TypeError'):
                ctx.violation('non-init-pytree-node-accepted', f'{PROP}:non-init-pytree-node', case, repr(ro))
            ctx.outcome('rejected:implicit-non-init-node')
            return
        if ro[0] == 'exc':
            detail = ''
            try:
                build_class('optree', name + 'x', opts, flags, form, base_o)
            except Exception as ex:  # noqa: BLE001
                detail = repr(ex)
            key = classify(flags, form, detail) or f'{PROP}:optree-rejects-valid-layout'
            ctx.violation('optree-rejects-valid-layout', key, case, f'optree {ro!r} ({detail}) but stdlib accepts')
            return
        co, cs = ro[1], rs[1]
        do, ds = describe(co), describe(cs)
        if do != ds:
            ctx.violation('class-differs-from-stdlib', f'{PROP}:class-differs-from-stdlib', case, f'{do!r} vs {ds!r}')
        ctx.cls((tuple(opts), tuple(sorted(flags.items())), form, inherit))
        ctx.outcome('accepted')
        # ---- instances ------------------------------------------------------------------------
        fs = std.fields(co)
        init_fields = [f for f in fs if f.init]
        if not co.__dataclass_params__.init:
            return  # no generated __init__: nothing to construct generically
        vals = {f.name: [Leaf(i), (Leaf(10 + i), [Leaf(20 + i)])][i % 2] for i, f in enumerate(init_fields)}
        io = outcome_of(lambda: co(**vals))
        is_ = outcome_of(lambda: cs(**vals))
        if io[0] != is_[0]:
            ctx.violation('construction-differs', f'{PROP}:class-differs-from-stdlib', case, f'{io!r} vs {is_!r}')
            return
        if io[0] != 'ok':
            return
        obj = io[1]
        ra, rb_ = outcome_of(lambda: repr(obj).replace(co.__qualname__, 'X')), outcome_of(lambda: repr(is_[1]).replace(cs.__qualname__, 'X'))
        if co.__dataclass_params__.repr and ra != rb_:
            ctx.violation('repr-differs', f'{PROP}:class-differs-from-stdlib', case, f'{ra!r} vs {rb_!r}')
        frozen_o = outcome_of(lambda: setattr(obj, init_fields[0].name, 1))[0] if init_fields else 'ok'
        frozen_s = outcome_of(lambda: setattr(is_[1], init_fields[0].name, 1))[0] if init_fields else 'ok'
        if frozen_o != frozen_s:
            ctx.violation('frozen-differs', f'{PROP}:class-differs-from-stdlib', case, f'{frozen_o} vs {frozen_s}')
        if frozen_o == 'ok' and init_fields:
            try:
                setattr(obj, init_fields[0].name, vals[init_fields[0].name])
            except Exception:  # noqa: BLE001
                pass
        # reference partition
        def is_node(f):
            return f.metadata.get('pytree_node', True)

        child_names = [f.name for f in fs if is_node(f)]
        meta_names = [f.name for f in fs if not is_node(f) and f.init]
        want_children = [getattr(obj, n) for n in child_names]
        r = outcome_of(lambda: optree.tree_flatten_one_level(obj, namespace=NS))
        if r[0] != 'ok':
            ctx.violation('one-level-raises', f'{PROP}:flatten', case, repr(r))
            return
        one = r[1]
        if len(one.children) != len(want_children) or any(a is not b for a, b in zip(one.children, want_children)):
            ctx.violation('children', f'{PROP}:partition', case, f'{one.children!r} vs {want_children!r}')
        if tuple(one.entries) != tuple(child_names):
            ctx.violation('entries', f'{PROP}:partition', case, f'{one.entries!r} vs {child_names!r}')
        if tuple(n for n, _ in one.metadata) != tuple(meta_names) or any(
            v is not getattr(obj, n) for n, v in one.metadata):
            ctx.violation('metadata', f'{PROP}:partition', case, f'{one.metadata!r} vs {meta_names!r}')
        # flatten only in the registered namespace
        for ns, want_node in ((NS, True), ('', False), ('elsewhere', False)):
            leaves, spec = optree.tree_flatten(obj, namespace=ns)
            if want_node != (spec.kind.name == 'CUSTOM'):
                ctx.violation('namespace-isolation', f'{PROP}:namespace-isolation', case, f'namespace {ns!r}: {spec!r}')
        accs, leaves, spec = optree.tree_flatten_with_accessor(obj, namespace=NS)
        want_leaves = []
        for c in want_children:
            want_leaves.extend(optree.tree_leaves(c, namespace=NS))
        if len(leaves) != len(want_leaves) or any(a is not b for a, b in zip(leaves, want_leaves)):
            ctx.violation('leaves', f'{PROP}:flatten', case, f'{leaves!r} vs {want_leaves!r}')
        for a, leaf in zip(accs, leaves):
            if a(obj) is not leaf or not isinstance(a[0], optree.accessor.DataclassEntry) or a[0].name != a.path[0]:
                ctx.violation('accessor', f'{PROP}:accessor', case, f'{a!r}')
            if eval(a.codify('t'), {'t': obj}) is not leaf:  # noqa: S307
                ctx.violation('codify', f'{PROP}:accessor', case, a.codify('t'))
        # round trip, __post_init__ re-run
        before = getattr(co, 'post_inits', 0)
        rb = outcome_of(lambda: optree.tree_unflatten(spec, leaves))
        if rb[0] != 'ok':
            ctx.violation('unflatten-raises', f'{PROP}:roundtrip', case, repr(rb))
            return
        new = rb[1]
        if getattr(co, 'post_inits', 0) != before + 1:
            ctx.violation('post_init-not-rerun', f'{PROP}:roundtrip', case, f'{getattr(co, "post_inits", 0)} vs {before + 1}')
        if type(new) is not co or new is obj:
            ctx.violation('roundtrip-type', f'{PROP}:roundtrip', case, repr(new))
        for f in init_fields:
            why = why_different(getattr(obj, f.name), getattr(new, f.name), U)
            if why:
                ctx.violation('roundtrip-field', f'{PROP}:roundtrip', case, f'{f.name}: {why}')
        eqr = outcome_of(lambda: new == obj)
        if co.__dataclass_params__.eq and eqr != ('ok', True) and eqr != ('exc', 'AttributeError'):
            ctx.violation('roundtrip-eq', f'{PROP}:roundtrip', case, f'{eqr!r}')
        # decorating twice is rejected
        again = outcome_of(lambda: optree.dataclasses.dataclass(co, namespace='other19'))
        if again != ('exc', 'TypeError'):
            ctx.violation('double-decoration', f'{PROP}:double-decoration', case, repr(again))
    finally:
        for c in created:
            unregister(c)


def layouts(tier):
    out = []
    small = FIELD_OPTS_SMALL
    full = FIELD_OPTS_FULL
    for n, pool in ((0, full), (1, full), (2, full), (3, small if tier == 'thorough' else None)):
        if pool is None:
            continue
        for opts in itertools.product(pool, repeat=n):
            out.append(tuple(opts))
    return out


def run_dataclasses(ctx):
    i = 0
    for opts in layouts(ctx.tier):
        for fi, flags in enumerate(CLASS_FLAGS):
            for form in FORMS:
                for inherit in ('none', 'optree-base', 'std-base'):
                    if inherit != 'none' and (fi > 3 or form == 'decorator' or len(opts) > 1):
                        continue
                    if len(opts) == 3 and fi > 2:
                        continue
                    i += 1
                    if ctx.mine(i):
                        check_layout(ctx, opts, flags, form, inherit)
                        if len(ctx.samples) < 3 and len(opts) == 2:
                            ctx.sample({'fields': [list(o) for o in opts], 'flags': flags, 'form': form})
    # argument rejections
    if ctx.shard == 0:
        class A:
            x: int = 0
        for ns_arg, want in (('', 'ValueError'), (5, 'TypeError'), (None, 'TypeError')):
            ctx.count()
            r = outcome_of(lambda: optree.dataclasses.dataclass(type('A2', (), {'__annotations__': {'x': int}}), namespace=ns_arg))
            r2 = outcome_of(lambda: optree.dataclasses.make_dataclass('A3', ['x'], namespace=ns_arg))
            if r != ('exc', want) or (r2 != ('exc', want) and not (ns_arg is None and r2[0] == 'exc')):
                ctx.violation('namespace-argument', f'{PROP}:namespace-argument', {'namespace': repr(ns_arg)}, f'{r!r} {r2!r}')
        ctx.count()
        r = outcome_of(lambda: optree.dataclasses.dataclass(5, namespace=NS))
        if r != ('exc', 'TypeError'):
            ctx.violation('non-class', f'{PROP}:namespace-argument', {}, repr(r))
        g = outcome_of(lambda: optree.dataclasses.dataclass(type('G', (), {'__annotations__': {'x': int}}), namespace=GLOBAL))
        if g[0] == 'ok':
            try:
                leaves = optree.tree_leaves(g[1](Leaf(0)), namespace='anything')
                if len(leaves) != 1 or not isinstance(leaves[0], Leaf):
                    ctx.violation('global-namespace', f'{PROP}:namespace-isolation', {}, repr(leaves))
            finally:
                optree.unregister_pytree_node(g[1], namespace=GLOBAL)


def field_histories(ctx):
    """Every sequence of 1..3 optree.dataclasses.field() calls x pytree_node in {default, True, False} that share ONE
    caller-owned metadata dict (fresh / already carrying pytree_node=False), the fields going into one class or into
    one class per call: each field keeps its own flag, the caller's dict is not written to, its other keys are kept,
    and the children of an instance are exactly the fields whose effective flag is true."""
    n = 0
    for length in (1, 2, 3):
        for flags in itertools.product((None, True, False), repeat=length):
            for seedmd in ({'unit': 'm'}, {'unit': 'm', 'pytree_node': False}):
                for split in ((False, True) if length > 1 else (False,)):
                    n += 1
                    if not ctx.mine(n):
                        continue
                    ctx.count()
                    ctx.cls(('field-history', flags, tuple(seedmd), split))
                    case = {'field_history': list(flags), 'shared_metadata': dict(seedmd), 'one_class_per_field': split}
                    shared = dict(seedmd)
                    fields = [optree.dataclasses.field(metadata=shared, pytree_node=f) for f in flags]
                    want = [seedmd.get('pytree_node', True) if f is None else f for f in flags]
                    problems = []
                    if shared != seedmd:
                        problems.append(f"caller's metadata dict was modified: {shared!r}")
                    groups = [[i] for i in range(length)] if split else [list(range(length))]
                    made = []
                    try:
                        for g in groups:
                            names = [f'f{i}' for i in g]
                            body = {'__annotations__': {nm: object for nm in names}}
                            for nm, i in zip(names, g):
                                body[nm] = fields[i]
                            cls = optree.dataclasses.dataclass(type(f'H{n}', (), body), namespace=NS)
                            made.append(cls)
                            got = [f.metadata.get('pytree_node') for f in std.fields(cls)]
                            if got != [want[i] for i in g] or any(f.metadata.get('unit') != 'm' for f in std.fields(cls)):
                                problems.append(f'field flags {got!r} (expected {[want[i] for i in g]!r}), '
                                                f'metadata {[dict(f.metadata) for f in std.fields(cls)]!r}')
                            vals = [Leaf(i) for i in g]
                            obj = cls(*vals)
                            leaves = optree.tree_leaves(obj, namespace=NS)
                            exp = [v for v, i in zip(vals, g) if want[i]]
                            if len(leaves) != len(exp) or any(a is not b for a, b in zip(leaves, exp)):
                                problems.append(f'children {leaves!r} expected {exp!r}')
                    except Exception as ex:  # noqa: BLE001
                        problems.append(f'{type(ex).__name__}: {ex}')
                    finally:
                        for cls in made:
                            unregister(cls)
                    ctx.outcome('field-history')
                    for p_ in problems:
                        ctx.violation('field-history', f'{PROP}:field-shared-metadata', case, p_)


# ---- partial -----------------------------------------------------------------------------------------------

CALLS = []


def target(*args, **kwargs):
    CALLS.append((args, kwargs))
    return 'called'


def run_partial(ctx):  # noqa: C901
    U, _ = e1.universe()
    P = optree.functools.partial
    trees = gen.core_trees(2)
    idx = 0
    shapes = []
    for a in trees[:12]:
        for b in trees[:12]:
            shapes.append((a, b))
    for arg_dsl, kw_dsl in shapes:
        for nesting in (0, 1, 2):
            for inner_kind in ('optree', 'functools'):
                if nesting == 0 and inner_kind == 'functools':
                    continue
                for outer_shape in ('args+kw', 'args', 'kw', 'none'):
                    idx += 1
                    if not ctx.mine(idx):
                        continue
                    partial_case(ctx, U, P, arg_dsl, kw_dsl, nesting, inner_kind, outer_shape)


def partial_case(ctx, U, P, arg_dsl, kw_dsl, nesting, inner_kind, outer_shape):  # noqa: C901, PLR0912
    ctx.count()
    a0, _ = gen.build(arg_dsl, U)
    k0, _ = gen.build(kw_dsl, U)
    case = {'args': arg_dsl, 'kw': kw_dsl, 'nesting': nesting, 'inner': inner_kind, 'outer': outer_shape}
    inner = target
    inner_args = []
    for lvl in range(nesting):
        ia, _ = gen.build(arg_dsl, U)
        inner_args.append(ia)
        inner = (P if inner_kind == 'optree' else functools.partial)(inner, ia, tag=Leaf(500 + lvl))
    pos = (a0, Leaf(1)) if 'args' in outer_shape else ()
    kws = {'kw': k0} if 'kw' in outer_shape else {}
    p = P(inner, *pos, **kws)
    ctx.cls((gen.dsl_repr(arg_dsl), gen.dsl_repr(kw_dsl), nesting, inner_kind, outer_shape))
    # never merged with the inner partial
    if p.func is not inner and not (nesting and getattr(p.func, 'partial_func', None) is inner):
        ctx.violation('merged-with-inner', f'{PROP}:partial-merged', case, f'{p.func!r} vs {inner!r}')
    if len(p.args) != len(pos) or any(x is not y for x, y in zip(p.args, pos)) or set(p.keywords) != set(kws):
        ctx.violation('merged-args', f'{PROP}:partial-merged', case, f'{p.args!r} {p.keywords!r}')
    for ns in ('', 'ns', 'xnsx'):
        r = outcome_of(lambda: optree.tree_flatten_one_level(p, namespace=ns))
        if r[0] != 'ok':
            ctx.violation('partial-one-level', f'{PROP}:partial-flatten', case, repr(r))
            continue
        one = r[1]
        ok = (len(one.children) == 2 and one.children[0] is p.args and one.children[1] is p.keywords
              and tuple(one.entries) == ('args', 'keywords') and one.metadata is p.func)
        if not ok:
            ctx.violation('partial-one-level', f'{PROP}:partial-flatten', case, f'{one!r}')
        leaves, spec = optree.tree_flatten(p, namespace=ns)
        want = [*optree.tree_leaves(pos, namespace=ns), *optree.tree_leaves(kws, namespace=ns)]
        if spec.kind.name != 'CUSTOM' or len(leaves) != len(want) or any(x is not y for x, y in zip(leaves, want)):
            ctx.violation('partial-flatten', f'{PROP}:partial-flatten', case, f'{leaves!r} vs {want!r}')
        # the inner partial is metadata: none of ITS bound arguments may be a leaf of the outer node
        if any(isinstance(x, Leaf) and x.i >= 500 for x in leaves):
            ctx.violation('inner-partial-leaked', f'{PROP}:partial-merged', case, repr(leaves))
    # after tree_map the rebuilt partial calls the same function with the mapped arguments
    mapping = {}

    def f(x):
        return mapping.setdefault(id(x), Leaf(900 + len(mapping)))

    q = optree.tree_map(f, p)
    if type(q) is not P:
        ctx.violation('map-type', f'{PROP}:partial-map', case, repr(q))
        return
    del CALLS[:]
    res = outcome_of(lambda: q(Leaf(77), extra=Leaf(78)))
    if res != ('ok', 'called') or len(CALLS) != 1:
        ctx.violation('map-call', f'{PROP}:partial-map', case, f'{res!r} calls {len(CALLS)}')
        return
    args, kwargs = CALLS[0]
    # expected call: inner bound args (innermost first, UNMAPPED: they are metadata), then the mapped outer
    # args, then the call-time argument
    want_args = [*inner_args, *(optree.tree_map(f, pos)), None]
    ok = len(args) == len(want_args) and isinstance(args[-1], Leaf) and args[-1].i == 77
    if ok:
        for got, wantv in zip(args[:-1], want_args[:-1]):
            if why_different(wantv, got, U):
                ok = False
    if not ok:
        ctx.violation('map-arguments', f'{PROP}:partial-map', case, f'{args!r} vs expected {want_args[:-1]!r} + call arg')
    want_kw = {'extra'} | set(kws) | ({'tag'} if nesting else set())
    if set(kwargs) != want_kw or ('kw' in kws and why_different(optree.tree_map(f, k0), kwargs['kw'], U)):
        ctx.violation('map-keywords', f'{PROP}:partial-map', case, repr(kwargs))
    if nesting and not (isinstance(kwargs.get('tag'), Leaf) and kwargs['tag'].i >= 500):
        ctx.violation('map-inner-keywords-rewritten', f'{PROP}:partial-map', case, repr(kwargs))
    ctx.outcome(f'partial:nesting={nesting},{outer_shape}')


def run_shard(ctx):
    field_histories(ctx)
    run_dataclasses(ctx)
    run_partial(ctx)


def replay(case, ctx):
    c = case['case']
    if 'field_history' in c:
        ctx.nshards, ctx.shard = 1, 0
        return field_histories(ctx)  # the whole 156-history product is re-run (cheap); the case names the cell
    if 'opts' in c:
        check_layout(ctx, tuple(tuple(o) for o in c['opts']), c['flags'], c['form'], c['inherit'])
    else:
        ctx.nshards, ctx.shard = 1, 0
        run_partial(ctx)
