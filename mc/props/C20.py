"""C20  tree_ravel and its unravel function are mutually inverse (E1; numpy / jax / torch)."""

from __future__ import annotations

import itertools
import warnings

import numpy as np
import optree

from mc import e1, gen
from mc.e1 import outcome_of
from mc.ref import STAR, ref_unflatten

PROP = 'C20'

SHAPES = [(), (0,), (1,), (3,), (2, 0), (1, 2), (2, 3), (1, 1, 2)]
DTYPES = {
    'numpy': ['bool', 'int8', 'int32', 'int64', 'float32', 'float64', 'complex64'],
    'jax': ['bool', 'int8', 'int32', 'float32', 'complex64'],
    'torch': ['bool', 'int8', 'int32', 'int64', 'float32', 'float64', 'complex64'],
}


class Backend:
    def __init__(self, name):
        self.name = name
        if name == 'numpy':
            import optree.integration.numpy as mod  # noqa: PLC0415

            self.mod = mod
        elif name == 'jax':
            import jax  # noqa: PLC0415
            import jax.numpy as jnp  # noqa: PLC0415
            import optree.integration.jax as mod  # noqa: PLC0415

            self.mod, self.jnp, self.jax = mod, jnp, jax
        else:
            import torch  # noqa: PLC0415
            import optree.integration.torch as mod  # noqa: PLC0415

            self.mod, self.torch = mod, torch

    def array(self, values, dtype, layout='C'):
        """Same logical values / shape / dtype in every layout: 'C' contiguous, 'T' a transposed (axis-reversed) view of a
        contiguous array, 'F' Fortran order, 'S' a strided view (every other row of a larger array)."""
        a = np.asarray(values).astype(dtype)
        if self.name == 'jax' or layout == 'C' or a.ndim == 0 or a.size == 0:
            if self.name == 'numpy':
                return a
            if self.name == 'jax':
                return self.jnp.asarray(a)
            return self.torch.from_numpy(np.ascontiguousarray(a)) if a.ndim else self.torch.tensor(a.item(), dtype=self.tdtype(dtype))
        if self.name == 'numpy':
            if layout == 'T':
                out = np.ascontiguousarray(a.T).T
            elif layout == 'F':
                out = np.asfortranarray(a)
            else:
                big = np.zeros((2 * a.shape[0], *a.shape[1:]), dtype=a.dtype)
                big[::2] = a
                out = big[::2]
        else:
            t = self.torch.from_numpy(np.ascontiguousarray(a))
            rev = tuple(reversed(range(t.ndim)))
            if layout in ('T', 'F'):
                out = t.permute(*rev).contiguous().permute(*rev)
            else:
                big = self.torch.zeros((2 * t.shape[0], *t.shape[1:]), dtype=t.dtype)
                big[::2] = t
                out = big[::2]
        assert tuple(out.shape) == tuple(a.shape) and np.array_equal(self.to_numpy(out), a)
        return out

    def tdtype(self, dtype):
        return getattr(self.torch, str(np.dtype(dtype)))

    def to_numpy(self, x):
        if self.name == 'torch':
            return x.detach().cpu().numpy()
        return np.asarray(x)

    def dtype_name(self, x):
        if self.name == 'torch':
            return str(x.dtype).replace('torch.', '')
        return str(np.dtype(x.dtype))

    def promote(self, names):
        if self.name == 'numpy':
            return str(np.result_type(*[np.dtype(n) for n in names]))
        if self.name == 'jax':
            return str(np.dtype(self.jnp.result_type(*[np.dtype(n) for n in names])))
        out = self.tdtype(names[0])
        for n in names[1:]:
            out = self.torch.promote_types(out, self.tdtype(n))
        return str(out).replace('torch.', '')

    def is_array(self, x):
        if self.name == 'numpy':
            return isinstance(x, np.ndarray)
        if self.name == 'jax':
            return isinstance(x, self.jax.Array)
        return self.torch.is_tensor(x)

    def default_float(self):
        if self.name == 'numpy':
            return 'float64'
        return 'float32'


def leaf_values(shape, dtype, seed):
    n = int(np.prod(shape)) if shape else 1
    base = (np.arange(n) + seed) % 2 if dtype == 'bool' else (np.arange(n) * 3 + seed) % 5
    return base.reshape(shape)


def check_case(ctx, B, dsl, leafspecs, nil, ns):  # noqa: C901, PLR0912, PLR0915
    """leafspecs: list of (shape, dtype) per leaf in construction order."""
    U, R = e1.universe()
    leafspecs = [(*ls, 'C') if len(ls) == 2 else tuple(ls) for ls in leafspecs]  # (shape, dtype, memory layout)
    case = {'backend': B.name, 'tree': dsl, 'leaves': [[list(s), d, lay] for s, d, lay in leafspecs], 'nil': nil, 'ns': ns}
    key = lambda o: f'{PROP}:{B.name}:{o}'  # noqa: E731
    ctx.count()
    shape_tree, _ = gen.build(dsl, U)
    flat = R.flatten(shape_tree, nil, ns, None, frozenset())
    n = len(flat.leaves)
    from mc.universe import Leaf  # noqa: PLC0415

    if n > len(leafspecs) or any(type(x) is not Leaf for x in flat.leaves):
        return  # an unregistered custom object / None is a leaf here: not a tree of arrays
    arrays = [B.array(leaf_values(s, d, i), d, lay) for i, (s, d, lay) in enumerate(leafspecs[:n])]
    # None leaves (none_is_leaf) cannot be raveled: only trees whose leaves are all Leaf objects
    if any(x is None for x in flat.leaves):
        return
    by_id = {id(leaf): arr for leaf, arr in zip(flat.leaves, arrays)}
    tree = ref_unflatten(flat.desc, [by_id[id(x)] for x in flat.leaves])
    ctx.cls((B.name, gen.dsl_repr(dsl), tuple(leafspecs[:n]), nil, ns))
    r = outcome_of(lambda: B.mod.tree_ravel(tree, none_is_leaf=nil, namespace=ns))
    if r[0] != 'ok':
        ctx.violation('ravel-raises', key('ravel-raises'), case, repr(r))
        return
    vec, unravel = r[1]
    dts = [d for _, d, _ in leafspecs[:n]]
    if n == 0:
        if not B.is_array(vec) or tuple(vec.shape) != (0,):
            ctx.violation('empty-ravel', key('empty-ravel'), case, repr(vec))
        back = outcome_of(lambda: unravel(vec))
        if back[0] != 'ok' or optree.tree_structure(back[1], none_is_leaf=nil, namespace=ns) != optree.tree_structure(
            tree, none_is_leaf=nil, namespace=ns):
            ctx.violation('empty-unravel', key('empty-unravel'), case, repr(back))
        wrong = outcome_of(lambda: unravel(B.array([1.0], B.default_float())))
        if wrong != ('exc', 'ValueError'):
            ctx.violation('wrong-shape-accepted', key('wrong-shape-accepted'), case, repr(wrong))
        ctx.outcome(f'{B.name}:empty')
        return
    want_dtype = B.promote(dts)
    with warnings.catch_warnings():
        warnings.simplefilter('ignore')
        want = np.concatenate([np.ravel(B.to_numpy(a)).astype(want_dtype) for a in arrays])
    got = B.to_numpy(vec)
    if B.dtype_name(vec) != want_dtype or got.shape != want.shape or not np.array_equal(got, want):
        ctx.violation('ravel-value', key('ravel-value'), case, f'{got!r} ({B.dtype_name(vec)}) vs {want!r} ({want_dtype})')
        return
    ctx.outcome(f'{B.name}:{"mixed" if len(set(dts)) > 1 else "uniform"}')
    # unravel(ravel(t)) == t
    back = outcome_of(lambda: unravel(vec))
    if back[0] != 'ok':
        ctx.violation('unravel-raises', key('unravel-raises'), case, repr(back))
        return
    bl, bs = optree.tree_flatten(back[1], none_is_leaf=nil, namespace=ns)
    if bs != optree.tree_structure(tree, none_is_leaf=nil, namespace=ns) or len(bl) != n:
        ctx.violation('unravel-structure', key('unravel-structure'), case, f'{bs!r}')
        return
    for i, (x, a) in enumerate(zip(bl, arrays)):
        if (not B.is_array(x) or tuple(x.shape) != tuple(a.shape) or B.dtype_name(x) != B.dtype_name(a)
                or not np.array_equal(B.to_numpy(x), B.to_numpy(a))):
            ctx.violation('unravel-leaf', key('unravel-leaf'), case,
                          f'leaf {i}: {x!r} vs {a!r}')
    # ravel(unravel(v)) == v for another representable v of the same length and dtype
    total = int(want.shape[0])
    v = B.array((np.arange(total) + 1) % 2, want_dtype)
    rb = outcome_of(lambda: B.mod.tree_ravel(unravel(v), none_is_leaf=nil, namespace=ns)[0])
    if rb[0] != 'ok' or B.dtype_name(rb[1]) != want_dtype or not np.array_equal(B.to_numpy(rb[1]), B.to_numpy(v)):
        ctx.violation('ravel-unravel-roundtrip', key('ravel-unravel-roundtrip'), case, f'{rb!r} vs {v!r}')
    # rejections
    for bad_len in (total + 1, max(total - 1, 0)) if total else (1,):
        if bad_len == total:
            continue
        wrong = outcome_of(lambda bl_=bad_len: unravel(B.array(np.zeros(bl_), want_dtype)))
        if wrong != ('exc', 'ValueError'):
            ctx.violation('wrong-length-accepted', key('wrong-length-accepted'), case, repr(wrong)[:300])
    wrong = outcome_of(lambda: unravel(B.array(np.zeros((total, 1)), want_dtype)))
    if wrong != ('exc', 'ValueError'):
        ctx.violation('wrong-rank-accepted', key('wrong-rank-accepted'), case, repr(wrong)[:300])
    other = 'float64' if want_dtype != 'float64' and B.name != 'jax' else 'int8' if want_dtype != 'int8' else 'int32'
    r2 = outcome_of(lambda: unravel(B.array(np.zeros(total), other)))
    if len(set(dts)) > 1:
        if r2 != ('exc', 'ValueError'):
            ctx.violation('wrong-dtype-accepted', key('wrong-dtype-accepted-for-mixed'), case, repr(r2)[:300])
    elif r2[0] != 'ok':
        ctx.violation('uniform-dtype-rejected', key('other-dtype-rejected-for-uniform'), case, repr(r2)[:300])


def shape_trees():
    trees = [d for d in gen.core_trees(3)]
    extra = [
        ['odict', {'keys': ['z', 'a']}, ['L', 'L']],
        ['ddict', {'keys': ['b', 'a'], 'factory': 'list'}, ['L', ['tuple', None, ['L']]]],
        ['deque', {'maxlen': 'len+1'}, ['L', 'L']],
        ['cg', None, ['L', ['list', None, ['L']]]],
        ['dc', None, ['L', 'L']],
        ['ss2', None, ['L', 'L']],
        ['dict', {'keys': [2, 'a', 1]}, ['L', 'L', 'L']],
    ]
    return trees + extra


SHAPES_2 = [(), (0,), (3,), (1, 2)]  # reduced menu whose full product is taken for two-leaf trees


def leaf_shape_tuples(nleaf, full):
    if nleaf == 0:
        return [()]
    if nleaf == 1:
        return [(s,) for s in SHAPES]
    if nleaf == 2:
        return [(a, b) for a in SHAPES_2 for b in SHAPES_2]
    if full:
        return [tuple(SHAPES[(si + 3 * j) % len(SHAPES)] for j in range(nleaf)) for si in range(len(SHAPES))] + [
            tuple(SHAPES_2[(si + j) % 4] for j in range(nleaf)) for si in range(4)]
    return [tuple(SHAPES[(si + 3 * j) % len(SHAPES)] for j in range(nleaf)) for si in range(3)]


QUICK_DTYPES = {'numpy': ['bool', 'int32', 'float32', 'complex64'], 'jax': ['bool', 'int8', 'int32', 'float32'],
                'torch': ['bool', 'int8', 'int64', 'float32', 'float64']}


SAME_SIZE_SHAPES = [((), (1,)), ((1,), (1, 1)), ((0,), (2, 0)), ((2, 0), (0, 3)), ((1, 2), (2,)), ((2,), (1, 1, 2)),
                    ((2, 3), (3, 2)), ((3, 2), (6,)), ((6,), (2, 3))]


def ravel_histories(ctx):
    """Two tree_ravel calls in ONE process whose leaves have the same sizes and dtypes but different shapes (both orders),
    and the first unravel function used again after the second call: an unravel function belongs to its own call."""
    for bname in ('numpy', 'jax', 'torch'):
        B = Backend(bname)
        for dt in QUICK_DTYPES[bname][1:3]:
            for sa, sb in SAME_SIZE_SHAPES:
                for first, second in ((sa, sb), (sb, sa)):
                    for dsl, k in (('L', 1), (['tuple', None, ['L', 'L']], 2), (['dict', {'keys': ['b', 'a']}, ['L', ['list', None, ['L']]]], 2)):
                        specs1 = [(first, dt)] * k
                        specs2 = [(second, dt)] * k
                        check_case(ctx, B, dsl, specs1, False, '')
                        check_case(ctx, B, dsl, specs2, False, '')
                        # the FIRST call's unravel function, used after the second call
                        U, R = e1.universe()
                        a1 = [B.array(leaf_values(first, dt, i), dt) for i in range(k)]
                        a2 = [B.array(leaf_values(second, dt, i), dt) for i in range(k)]
                        t1 = a1[0] if k == 1 else (a1[0], a1[1])
                        t2 = a2[0] if k == 1 else (a2[0], a2[1])
                        v1, un1 = B.mod.tree_ravel(t1)
                        v2, un2 = B.mod.tree_ravel(t2)
                        ctx.count()
                        for label, un_, v, arrs in (('first-after-second', un1, v1, a1), ('second', un2, v2, a2)):
                            back = outcome_of(lambda un_=un_, v=v: optree.tree_leaves(un_(v)))
                            if back[0] != 'ok' or len(back[1]) != k or any(
                                    tuple(x.shape) != tuple(a.shape) or not np.array_equal(B.to_numpy(x), B.to_numpy(a))
                                    for x, a in zip(back[1], arrs)):
                                ctx.violation('ravel-history', f'{PROP}:{bname}:unravel-belongs-to-another-call',
                                              {'backend': bname, 'history': [list(first), list(second)], 'dtype': dt, 'leaves': k,
                                               'which': label}, repr(back)[:400])


def run_shard(ctx):
    if ctx.shard == 0:
        ravel_histories(ctx)
    quick = ctx.tier == 'quick'
    idx = 0
    trees = shape_trees()
    for bname in ('numpy', 'jax', 'torch'):
        B = Backend(bname)
        dtypes = QUICK_DTYPES[bname] if quick else DTYPES[bname]
        max_leaves = 2 if quick else 3
        for dsl in trees:
            nleaf = gen.dsl_repr(dsl).count('*')
            if nleaf > max_leaves:
                continue
            opts = ((False, ''), (True, 'ns')) if (quick or bname != 'numpy') else (
                (False, ''), (True, ''), (False, 'ns'), (True, 'ns'))
            dt_menu = dtypes if nleaf <= 2 else dtypes[:4]
            for nil, ns in opts:
                for dts in itertools.product(dt_menu, repeat=nleaf):
                    for shp in leaf_shape_tuples(nleaf, bname == 'numpy' and not quick):
                        idx += 1
                        if not ctx.mine(idx):
                            continue
                        specs = list(zip(shp, dts))
                        check_case(ctx, B, dsl, specs, nil, ns)
                        # the same case with every eligible leaf in a non-contiguous memory layout
                        if bname != 'jax' and any(len(sh) >= 1 and int(np.prod(sh)) > 1 for sh in shp):
                            for lay in ('T', 'F', 'S'):
                                if lay != 'S' and not any(len(sh) >= 2 and int(np.prod(sh)) > 1 for sh in shp):
                                    continue
                                check_case(ctx, B, dsl, [(sh, d, lay) for sh, d in specs], nil, ns)
                        if len(ctx.samples) < 4 and nleaf == 2:
                            ctx.sample({'backend': bname, 'tree': gen.dsl_repr(dsl), 'leaves': [[list(s), d] for s, d in specs]})


def replay(case, ctx):
    c = case['case']
    if 'history' in c:
        return ravel_histories(ctx)
    B = Backend(c['backend'])
    check_case(ctx, B, c['tree'], [(tuple(ls[0]), *ls[1:]) for ls in c['leaves']], c['nil'], c['ns'])


_ = STAR
