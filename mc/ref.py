"""Reference model of optree's documented semantics (DESIGN.md section 3.3).

Pure Python; imports nothing from optree.  It consults the Universe's own record of the
registrations the harness performed (`U.reg`, `U.nt_types`, `U.ss_types`) and implements the
README rules literally:

  predicate first; exact-type lookup in the namespace then globally; struct-sequence / namedtuple
  recognition; the None rule; child order per kind; key order = sorted(keys) ->
  sorted(keys, key=(type-qualname, key)) -> insertion order.
"""

from __future__ import annotations

from collections import OrderedDict, defaultdict, deque

DICT_KINDS = ('dict', 'odict', 'ddict')


class N:
    """Descriptor of an internal node.  Leaves are the singleton STAR."""

    __slots__ = ('children', 'entries', 'kind', 'meta', 'num_leaves', 'num_nodes', 'orig_keys',
                 'reg', 'type')

    def __init__(self, kind, type_, meta, entries, children, reg=None, orig_keys=None):
        self.kind = kind
        self.type = type_
        self.meta = meta
        self.entries = tuple(entries)
        self.children = tuple(children)
        self.reg = reg
        self.orig_keys = orig_keys
        self.num_leaves = sum(c.num_leaves for c in self.children)
        self.num_nodes = 1 + sum(c.num_nodes for c in self.children)

    @property
    def arity(self):
        return len(self.children)

    def keys(self):
        assert self.kind in DICT_KINDS
        return self.meta[1] if self.kind == 'ddict' else self.meta

    def eq_key(self):
        """Value that is == for two descriptors iff the treespecs must compare equal
        (same node type, arity, key *order* as flattened / metadata at every position)."""
        return (self.kind, self.reg if self.kind == 'custom' else self.type, _meta_key(self.meta),
                tuple(c.eq_key() for c in self.children))

    def __repr__(self):
        return f'N({self.kind},{getattr(self.type, "__name__", self.type)},{self.meta!r},{list(self.children)})'


class _Star:
    __slots__ = ()
    kind = 'leaf'
    type = None
    meta = None
    entries = ()
    children = ()
    reg = None
    orig_keys = None
    num_leaves = 1
    num_nodes = 1
    arity = 0

    def eq_key(self):
        return '*'

    def __repr__(self):
        return '*'


STAR = _Star()


def _meta_key(m):
    if isinstance(m, list):
        return tuple(m)
    if isinstance(m, tuple):
        return tuple(_meta_key(x) for x in m)
    return m


def qualname(k):
    cls = type(k)
    return f'{cls.__module__}.{cls.__qualname__}'


def total_order_sorted(keys):
    """The documented key order (README: 'sorted keys', falling back to (type name, key), falling
    back to insertion order)."""
    keys = list(keys)
    try:
        return sorted(keys)
    except TypeError:
        try:
            return sorted(keys, key=lambda k: (qualname(k), k))
        except TypeError:
            return keys


class Flat:
    __slots__ = ('desc', 'leaves', 'namespace', 'paths', 'typed', 'internal_pre', 'internal_post')

    def __init__(self):
        self.leaves = []
        self.paths = []
        self.typed = []  # per leaf: tuple of (entry, node_type, kind, entry_class_or_None)
        self.desc = None
        self.namespace = ''
        self.internal_post = []  # internal node objects in post-order


class Ref:
    def __init__(self, U):
        self.U = U

    # -- classification of one object ---------------------------------------------------------
    def classify(self, o, nil, ns, pred):
        """Return (kind, reg) for object `o`;  kind == 'leaf' for leaves."""
        if pred is not None and pred(o):
            return 'leaf', None
        t = type(o)
        r = self.U.lookup(t, ns)
        if r is not None:
            return 'custom', r
        if o is None:
            return ('leaf', None) if nil else ('none', None)
        if t is tuple:
            return 'tuple', None
        if t is list:
            return 'list', None
        if t is dict:
            return 'dict', None
        if t is OrderedDict:
            return 'odict', None
        if t is defaultdict:
            return 'ddict', None
        if t is deque:
            return 'deque', None
        if t in self.U.ss_types:
            return 'structseq', None
        if t in self.U.nt_types:
            return 'namedtuple', None
        return 'leaf', None

    def one_level(self, o, kind, reg, ns, S):  # noqa: C901
        """children, meta, entries, orig_keys for a non-leaf node."""
        if kind == 'none':
            return (), None, (), None
        if kind in ('tuple', 'list'):
            return tuple(o), None, tuple(range(len(o))), None
        if kind == 'deque':
            return tuple(o), o.maxlen, tuple(range(len(o))), None
        if kind in ('namedtuple', 'structseq'):
            return tuple(o), type(o), tuple(range(len(o))), None
        if kind == 'odict':
            keys = list(o)
            return tuple(o[k] for k in keys), keys, tuple(keys), None
        if kind in ('dict', 'ddict'):
            orig = list(o)
            keys = orig if (ns in S or '' in S) else total_order_sorted(orig)
            ch = tuple(o[k] for k in keys)
            if kind == 'ddict':
                return ch, (o.default_factory, keys), tuple(keys), orig
            return ch, keys, tuple(keys), orig
        if kind == 'custom':
            out = reg.flatten(o)
            children = tuple(out[0])
            meta = out[1]
            entries = out[2] if len(out) == 3 and out[2] is not None else tuple(range(len(children)))
            return children, meta, tuple(entries), None
        raise AssertionError(kind)

    # -- flatten -----------------------------------------------------------------------------
    def flatten(self, obj, nil=False, ns='', pred=None, S=frozenset()):
        """Reference flatten.  `S` = set of insertion-ordered namespaces ('' = global)."""
        out = Flat()
        found_custom = [False]

        def rec(o, path, typed):
            kind, reg = self.classify(o, nil, ns, pred)
            if kind == 'leaf':
                out.leaves.append(o)
                out.paths.append(path)
                out.typed.append(typed)
                return STAR
            if kind == 'custom':
                found_custom[0] = True
            children, meta, entries, orig = self.one_level(o, kind, reg, ns, S)
            ntype = reg.type if reg is not None else type(o)
            descs = []
            for e, c in zip(entries, children):
                descs.append(rec(c, (*path, e), (*typed, (e, ntype, kind, reg))))
            out.internal_post.append(o)
            return N(kind, ntype, meta, entries, descs, reg=reg, orig_keys=orig)

        out.desc = rec(obj, (), ())
        out.namespace = ns if (found_custom[0] or (ns in S)) else ''
        return out

    # -- derived, on descriptors -------------------------------------------------------------------
    @staticmethod
    def render(d):  # noqa: C901
        """Documented notation of a structure."""
        if d is STAR:
            return '*'
        ch = [Ref.render(c) for c in d.children]
        k = d.kind
        if k == 'none':
            return 'None'
        if k == 'tuple':
            return '(' + ', '.join(ch) + (',' if len(ch) == 1 else '') + ')'
        if k == 'list':
            return '[' + ', '.join(ch) + ']'
        if k == 'dict':
            return '{' + ', '.join(f'{key!r}: {c}' for key, c in zip(d.meta, ch)) + '}'
        if k == 'odict':
            if not ch:
                return 'OrderedDict()'
            return 'OrderedDict({' + ', '.join(f'{key!r}: {c}' for key, c in zip(d.meta, ch)) + '})'
        if k == 'ddict':
            fac, keys = d.meta
            return f'defaultdict({fac!r}, {{' + ', '.join(f'{key!r}: {c}' for key, c in zip(keys, ch)) + '})'
        if k == 'deque':
            s = 'deque([' + ', '.join(ch) + ']'
            if d.meta is not None:
                s += f', maxlen={d.meta!r}'
            return s + ')'
        if k == 'namedtuple':
            fields = d.type._fields
            return d.type.__name__ + '(' + ', '.join(f'{f}={c}' for f, c in zip(fields, ch)) + ')'
        if k == 'structseq':
            mod = d.type.__module__
            prefix = '' if mod in ('', '__main__', 'builtins', '__builtins__') else mod + '.'
            return (prefix + d.type.__qualname__ + '('
                    + ', '.join(f'{f}={c}' for f, c in zip(_ss_fields(d.type), ch)) + ')')
        if k == 'custom':
            return f'CustomTreeNode({d.type.__name__}[{d.meta!r}], [' + ', '.join(ch) + '])'
        raise AssertionError(k)

    @staticmethod
    def spec_repr(d, nil, namespace):
        s = 'PyTreeSpec(' + Ref.render(d)
        if nil:
            s += ', NoneIsLeaf'
        if namespace:
            s += f', namespace={namespace!r}'
        return s + ')'

    @staticmethod
    def is_prefix(a, b):
        """Structural prefix relation a <= b of the property statement (C07)."""
        if a is STAR:
            return True
        if b is STAR:
            return False
        if a.kind in DICT_KINDS:
            if b.kind not in DICT_KINDS or a.arity != b.arity:
                return False
            bmap = _keymap(b)
            if bmap is None:
                return False
            ak = a.keys()
            if len(ak) != len(bmap):
                return False
            for key, ca in zip(ak, a.children):
                try:
                    cb = bmap[key]
                except KeyError:
                    return False
                if not Ref.is_prefix(ca, cb):
                    return False
            return True
        if a.kind != b.kind or a.arity != b.arity:
            return False
        if a.kind in ('namedtuple', 'structseq') and a.type is not b.type:
            return False
        if a.kind == 'custom' and (a.reg is not b.reg or not (a.meta == b.meta)):
            return False
        return all(Ref.is_prefix(x, y) for x, y in zip(a.children, b.children))

    @staticmethod
    def strictly_smaller(a, b):
        """a <= b and b has a non-leaf node where a has a leaf."""
        if not Ref.is_prefix(a, b):
            return False

        def some_leaf_on_node(x, y):
            if x is STAR:
                return y is not STAR
            if x.kind in DICT_KINDS:
                ymap = _keymap(y)
                return any(some_leaf_on_node(cx, ymap[k]) for k, cx in zip(x.keys(), x.children))
            return any(some_leaf_on_node(cx, cy) for cx, cy in zip(x.children, y.children))

        return some_leaf_on_node(a, b)

    @staticmethod
    def common_suffix(a, b):
        """Least structure both are prefixes of, keeping `a`'s node types / key order / entries.
        Raises ValueError on conflict."""
        if a is STAR:
            return b
        if b is STAR:
            return a
        if a.kind == 'none':
            if b.kind != 'none':
                raise ValueError('incompatible')
            return a
        if a.kind in DICT_KINDS:
            if b.kind not in DICT_KINDS:
                raise ValueError('incompatible')
            bmap = _keymap(b)
            ak = a.keys()
            if len(ak) != b.arity or any(k not in bmap for k in ak):
                raise ValueError('key mismatch')
            ch = [Ref.common_suffix(ca, bmap[k]) for k, ca in zip(ak, a.children)]
            return N(a.kind, a.type, a.meta, a.entries, ch, reg=a.reg, orig_keys=a.orig_keys)
        if a.kind != b.kind:
            raise ValueError('incompatible')
        if a.arity != b.arity:
            raise ValueError('arity')
        if a.kind in ('namedtuple', 'structseq') and a.type is not b.type:
            raise ValueError('type')
        if a.kind == 'custom' and (a.reg.type is not b.reg.type or not (a.meta == b.meta)):
            raise ValueError('custom')
        ch = [Ref.common_suffix(x, y) for x, y in zip(a.children, b.children)]
        return N(a.kind, a.type, a.meta, a.entries, ch, reg=a.reg, orig_keys=a.orig_keys)

    @staticmethod
    def compose(a, b):
        if a is STAR:
            return b
        return N(a.kind, a.type, a.meta, a.entries, [Ref.compose(c, b) for c in a.children],
                 reg=a.reg, orig_keys=a.orig_keys)

    @staticmethod
    def paths(d):
        out = []

        def rec(x, p):
            if x is STAR:
                out.append(p)
                return
            for e, c in zip(x.entries, x.children):
                rec(c, (*p, e))

        rec(d, ())
        return out

    @staticmethod
    def subtree_at(d, path):
        for e in path:
            idx = list(d.entries).index(e)
            d = d.children[idx]
        return d


def _keymap(d):
    try:
        return dict(zip(d.keys(), d.children))
    except TypeError:
        return None


def _ss_fields(t):
    import grp  # noqa: PLC0415
    import os  # noqa: PLC0415
    import time  # noqa: PLC0415

    return {
        os.terminal_size: ('columns', 'lines'),
        grp.struct_group: ('gr_name', 'gr_passwd', 'gr_gid', 'gr_mem'),
        time.struct_time: ('tm_year', 'tm_mon', 'tm_mday', 'tm_hour', 'tm_min', 'tm_sec',
                           'tm_wday', 'tm_yday', 'tm_isdst'),
    }.get(t) or tuple(n for n in t.__dict__ if not n.startswith('_') and not n.startswith('n_'))[: t.n_sequence_fields]


# ---------------------------------------------------------------------------------------------
# reference unflatten / flatten_up_to (documented semantics, on real objects)


def ref_unflatten(d, leaves):
    """Build the tree described by descriptor `d` from an iterator of leaves."""
    it = iter(leaves)

    def rec(x):  # noqa: C901, PLR0911
        if x is STAR:
            return next(it)
        ch = [rec(c) for c in x.children]
        k = x.kind
        if k == 'none':
            return None
        if k == 'tuple':
            return tuple(ch)
        if k == 'list':
            return list(ch)
        if k == 'deque':
            return deque(ch, maxlen=x.meta)
        if k == 'namedtuple':
            return x.type(*ch)
        if k == 'structseq':
            return x.type(ch)
        if k in DICT_KINDS:
            keys = x.keys()
            vals = dict(zip(keys, ch))
            order = x.orig_keys if x.orig_keys is not None else keys
            out = {key: vals[key] for key in order}
            if k == 'odict':
                return OrderedDict(out)
            if k == 'ddict':
                return defaultdict(x.meta[0], out)
            return out
        if k == 'custom':
            return x.reg.unflatten(x.meta, ch)
        raise AssertionError(k)

    out = rec(d)
    return out


class Mismatch(ValueError):
    pass


def ref_flatten_up_to(d, full, U, namespace):  # noqa: C901
    """Subtrees of `full` at the leaf positions of descriptor `d` (in d's leaf order); raises
    Mismatch when `d` is not a prefix of `full`'s structure (exact-type matching, dict kinds with
    equal key sets interchangeable, deque maxlen ignored)."""
    out = []

    def rec(x, o):  # noqa: C901, PLR0912
        if x is STAR:
            out.append(o)
            return
        k = x.kind
        t = type(o)
        if k == 'none':
            if o is not None:
                raise Mismatch('expected None')
            return
        if k == 'tuple':
            if t is not tuple or len(o) != x.arity:
                raise Mismatch('tuple')
            kids = list(o)
        elif k == 'list':
            if t is not list or len(o) != x.arity:
                raise Mismatch('list')
            kids = list(o)
        elif k == 'deque':
            if t is not deque or len(o) != x.arity:
                raise Mismatch('deque')
            kids = list(o)
        elif k in DICT_KINDS:
            if t not in (dict, OrderedDict, defaultdict):
                raise Mismatch('dict kind')
            keys = x.keys()
            if len(o) != len(keys) or any(key not in o for key in keys):
                raise Mismatch('keys')
            kids = [o[key] for key in keys]
        elif k in ('namedtuple', 'structseq'):
            if k == 'namedtuple' and t not in U.nt_types:
                raise Mismatch('not a namedtuple')
            if k == 'structseq' and t not in U.ss_types:
                raise Mismatch('not a structseq')
            if len(o) != x.arity or t is not x.type:
                raise Mismatch('namedtuple/structseq class or arity')
            kids = list(o)
        elif k == 'custom':
            r = U.lookup(t, namespace)
            if r is not x.reg:
                raise Mismatch('custom registration')
            res = r.flatten(o)
            if not (res[1] == x.meta):
                raise Mismatch('custom metadata')
            kids = list(res[0])
            if len(kids) != x.arity:
                raise Mismatch('custom arity')
        else:
            raise AssertionError(k)
        for c, ko in zip(x.children, kids):
            rec(c, ko)

    rec(d, full)
    return out
