"""Check driver: builds the overlay, fans a property's shards out to supervised worker processes,
merges their results, applies the known-findings protocol, writes evidence and replay files.

Parent side:   run_check(prop_id, tier, seed)            (never imports optree)
Worker side:   python -m mc.runner --worker ...           (imports optree from the overlay build)

Exit codes: 0 = held on everything explored (possibly with KNOWN-FINDING lines);
            1 = at least one unlisted violation (VIOLATION property=<id> replay=<path>);
            2 = the harness itself is broken (build failure, worker protocol failure, bad evidence).
"""

from __future__ import annotations

import argparse
import collections
import hashlib
import importlib
import json
import os
import pickle
import subprocess
import sys
import tempfile
import time
import traceback
from pathlib import Path

VERIF = Path(__file__).resolve().parent.parent
PY = '/venv/bin/python'
MAX_REPLAYS_PER_KEY = 3
MAX_RESTARTS = 40


def digest(obj) -> bytes:
    return hashlib.blake2b(repr(obj).encode(), digest_size=8).digest()


# =============================================================================================
# worker side


class Ctx:
    """Handed to prop.run_shard().  Accumulates coverage and violations."""

    def __init__(self, prop_id, tier, seed, shard, nshards, ckpt_path=None, skip=()):
        self.prop_id = prop_id
        self.tier = tier
        self.seed = seed
        self.shard = shard
        self.nshards = nshards
        self.ckpt_path = ckpt_path
        self._ckpt_fd = os.open(ckpt_path, os.O_WRONLY | os.O_CREAT, 0o644) if ckpt_path else None
        self.skip = set(skip)
        self.evaluations = 0
        self.classes = set()
        self.outcomes = collections.Counter()
        self.violations = []
        self.samples = []
        self.extra = collections.Counter()
        self.sets = collections.defaultdict(set)  # named digest sets, unioned by the parent
        self.notes = []
        self._viol_keys = collections.Counter()

    # -- bookkeeping --------------------------------------------------------------------------
    def mine(self, index):
        return index % self.nshards == self.shard

    def checkpoint(self, case_id, case=None):
        """Record the case about to be executed (attributes a crash / hang to it)."""
        if self._ckpt_fd is None:
            return
        data = json.dumps({'id': case_id, 'case': case}, default=repr).encode()
        os.pwrite(self._ckpt_fd, data + b'\n' + b' ' * 64, 0)
        os.ftruncate(self._ckpt_fd, len(data) + 1)

    def skipped(self, case_id):
        return case_id in self.skip

    def count(self, n=1):
        self.evaluations += n

    def cls(self, key):
        self.classes.add(digest(key))

    def outcome(self, label, n=1):
        self.outcomes[label] += n

    def sample(self, s, cap=6):
        if len(self.samples) < cap:
            self.samples.append(s)

    def violation(self, oracle, key, case, detail):
        """key: violation class (see mc/findings.py).  case: JSON-serialisable replay input."""
        self._viol_keys[key] += 1
        if self._viol_keys[key] <= MAX_REPLAYS_PER_KEY:
            self.violations.append(
                {'property': self.prop_id, 'oracle': oracle, 'key': key, 'case': case,
                 'detail': str(detail)[:2000]},
            )

    def result(self):
        return {
            'evaluations': self.evaluations,
            'classes': self.classes,
            'outcomes': self.outcomes,
            'violations': self.violations,
            'viol_counts': self._viol_keys,
            'samples': self.samples,
            'extra': self.extra,
            'sets': dict(self.sets),
            'notes': self.notes,
        }


def load_prop(prop_id):
    return importlib.import_module(f'mc.props.{prop_id}')


def worker_main(args):
    from mc import build  # noqa: PLC0415

    build.assert_overlay()
    prop = load_prop(args.prop)
    skip = json.loads(args.skip) if args.skip else []
    ctx = Ctx(args.prop, args.tier, args.seed, args.shard, args.of, args.ckpt, skip)
    try:
        if args.replay:
            case = json.loads(Path(args.replay).read_text())
            prop.replay(case, ctx)
        else:
            prop.run_shard(ctx)
    except BaseException:  # noqa: BLE001 -- a Python-level failure of the harness itself
        traceback.print_exc()
        sys.stdout.flush()
        os._exit(3)
    with open(args.out + '.tmp', 'wb') as f:
        pickle.dump(ctx.result(), f)
    os.replace(args.out + '.tmp', args.out)


# =============================================================================================
# parent side


def _spawn(prop_id, tier, seed, shard, of, env, tmp, skip, replay=None, stack_mb=None):
    out = os.path.join(tmp, f'out.{shard}.{len(skip)}.pkl')
    ckpt = os.path.join(tmp, f'ckpt.{shard}')
    log = open(os.path.join(tmp, f'log.{shard}.{len(skip)}'), 'wb')
    cmd = [PY, '-m', 'mc.runner', '--worker', '--prop', prop_id, '--tier', tier, '--seed', str(seed),
           '--shard', str(shard), '--of', str(of), '--out', out, '--ckpt', ckpt]
    if skip:
        cmd += ['--skip', json.dumps(skip)]
    if replay:
        cmd += ['--replay', replay]
    preexec = None
    if stack_mb:
        import resource  # noqa: PLC0415

        def preexec():
            lim = stack_mb * 1024 * 1024
            try:
                resource.setrlimit(resource.RLIMIT_STACK, (lim, lim))
            except (ValueError, OSError):
                resource.setrlimit(resource.RLIMIT_STACK, (resource.RLIM_INFINITY, resource.RLIM_INFINITY))

    p = subprocess.Popen(cmd, env=env, cwd=str(VERIF), stdout=log, stderr=subprocess.STDOUT, preexec_fn=preexec)
    return {'p': p, 'out': out, 'ckpt': ckpt, 'log': log.name, 'shard': shard, 'skip': list(skip),
            't0': time.time()}


def run_check(prop_id, tier, seed, replay=None, workers=None):  # noqa: C901, PLR0912, PLR0915
    from mc import build, evidence, findings  # noqa: PLC0415

    t0 = time.time()
    spec = json.loads((VERIF / 'mc' / 'props' / 'specs.json').read_text())[prop_id]
    variant = spec.get('variant', {}).get(tier, spec.get('variant', {}).get('default', 'rel')) \
        if isinstance(spec.get('variant'), dict) else spec.get('variant', 'rel')
    try:
        env = build.env_for(variant)
        if spec.get('also_asan'):
            build.ensure('asan')
    except build.BuildError as ex:
        print(f'BROKEN: build failed: {ex}')
        return 2
    env['VERIF_TIER'] = tier
    env['VERIF_SEED'] = str(seed)
    rel_env = env
    if spec.get('rel_shards'):
        rel_env = build.env_for('rel')
        rel_env['VERIF_TIER'] = tier
        rel_env['VERIF_SEED'] = str(seed)
    nworkers = workers or int(os.environ.get('VERIF_WORKERS', '0')) or min(16, os.cpu_count() or 4)
    nshards = 1 if replay else spec.get('shards', {}).get(tier, nworkers)
    timeout = spec.get('worker_timeout', {}).get(tier, 1800 if tier == 'quick' else 6 * 3600)
    tmp = tempfile.mkdtemp(prefix=f'verif-{prop_id}-', dir=os.environ.get('VERIF_SCRATCH', '/var/tmp'))
    merged = {
        'evaluations': 0, 'classes': set(), 'outcomes': collections.Counter(), 'violations': [],
        'viol_counts': collections.Counter(), 'samples': [], 'extra': collections.Counter(),
        'sets': collections.defaultdict(set), 'notes': [],
    }
    broken = []
    gave_up = False
    try:
        pending = list(range(nshards))
        running = []
        skips = collections.defaultdict(list)
        restarts = 0
        while pending or running:
            while pending and len(running) < nworkers:
                s = pending.pop(0)
                use_rel = s in spec.get('rel_shards', []) and not replay
                running.append(_spawn(prop_id, tier, seed, s, nshards, rel_env if use_rel else env, tmp, skips[s],
                                      replay, None if use_rel else spec.get('stack_mb')))
            time.sleep(0.02)
            for w in list(running):
                rc = w['p'].poll()
                if rc is None:
                    if time.time() - w['t0'] > timeout:
                        w['p'].kill()
                        w['p'].wait()
                        rc = -9
                        w['timed_out'] = True
                    else:
                        continue
                running.remove(w)
                if rc == 0 and os.path.exists(w['out']):
                    with open(w['out'], 'rb') as f:
                        r = pickle.load(f)  # noqa: S301
                    os.unlink(w['out'])
                    merged['evaluations'] += r['evaluations']
                    merged['classes'] |= r['classes']
                    merged['outcomes'].update(r['outcomes'])
                    merged['violations'].extend(r['violations'])
                    merged['viol_counts'].update(r['viol_counts'])
                    merged['samples'].extend(r['samples'])
                    merged['extra'].update(r['extra'])
                    for k, v in r['sets'].items():
                        merged['sets'][k] |= v
                    merged['notes'].extend(r['notes'])
                    continue
                # worker died: attribute to the checkpointed case
                logtail = Path(w['log']).read_text(errors='replace')[-3000:]
                if rc == 3:
                    broken.append(f'harness error in worker shard {w["shard"]}:\n{logtail}')
                    pending.clear()
                    for o in running:
                        o['p'].kill()
                    running.clear()
                    break
                ck = None
                try:
                    ck = json.loads(Path(w['ckpt']).read_text().strip() or 'null')
                except Exception:  # noqa: BLE001
                    ck = None
                if ck is None or replay:
                    if replay and ck is not None:
                        pass
                    else:
                        broken.append(f'worker shard {w["shard"]} died rc={rc} without a checkpoint:\n{logtail}')
                        continue
                how = 'timeout' if w.get('timed_out') else f'rc={rc}'
                key = f'{prop_id}:crash:{_crash_class(rc, logtail, w.get("timed_out"))}'
                pre = (ck.get('case') or {}).get('crash_key') if isinstance(ck.get('case'), dict) else None
                if pre:
                    key = f'{prop_id}:crash:{pre}'
                prefix = (ck.get('case') or {}).get('crash_prefix') if isinstance(ck.get('case'), dict) else None
                if prefix:
                    key = f'{prop_id}:crash:{prefix}:{_crash_class(rc, logtail, w.get("timed_out"))}'
                merged['violations'].append(
                    {'property': prop_id, 'oracle': 'process-survives', 'key': key,
                     'case': ck.get('case'), 'detail': f'worker died ({how}) while executing case '
                     f'{ck.get("id")}\n{logtail}'},
                )
                merged['viol_counts'][key] += 1
                merged['evaluations'] += 1  # the case that killed the worker was executed
                merged['extra']['worker-crashes'] += 1
                merged['classes'].add(digest(('crashed-case', w['shard'], ck.get('id'))))
                if replay:
                    continue
                restarts += 1
                if restarts > spec.get('max_restarts', MAX_RESTARTS):
                    merged['notes'].append(f'more than {spec.get("max_restarts", MAX_RESTARTS)} worker crashes: '
                                           f'exploration stopped early (NOT exhaustive)')
                    gave_up = True
                    pending.clear()
                    continue
                skips[w['shard']].append(ck.get('id'))
                pending.append(w['shard'])
    finally:
        for w in running if 'running' in dir() else []:
            try:
                w['p'].kill()
            except Exception:  # noqa: BLE001
                pass
        subprocess.run(['rm', '-rf', tmp], check=False)

    wall = time.time() - t0
    if broken:
        for b in broken:
            print('BROKEN:', b)
        return 2

    # ---- findings protocol --------------------------------------------------------------------
    known = findings.load()
    unlisted = []
    printed_known = set()
    for v in merged['violations']:
        hit = findings.match(known, v)
        if hit is not None:
            if hit['key'] not in printed_known:
                printed_known.add(hit['key'])
                print(f'KNOWN-FINDING: property={prop_id} {hit["what"]} [{hit["key"]}]')
        else:
            unlisted.append(v)
    replay_dir = VERIF / 'replays' / prop_id
    exit_code = 0
    seen_keys = collections.Counter()
    for v in unlisted:
        seen_keys[v['key']] += 1
        if seen_keys[v['key']] > MAX_REPLAYS_PER_KEY:
            continue
        replay_dir.mkdir(parents=True, exist_ok=True)
        body = json.dumps(v, indent=1, default=repr, sort_keys=True)
        path = replay_dir / (hashlib.sha1(body.encode()).hexdigest()[:12] + '.json')
        path.write_text(body)
        print(f'VIOLATION property={prop_id} replay={path}')
        print(f'  oracle={v["oracle"]} key={v["key"]}')
        print('  ' + v['detail'].replace('\n', '\n  ')[:1200])
        exit_code = 1
    if replay:
        print(f'replay: {"violation reproduced" if exit_code else "no violation"}')
        return exit_code

    if gave_up:
        spec = dict(spec, exhaustive=False)
    try:
        evidence.write(prop_id, tier, seed, spec, merged, wall, len(unlisted),
                       sorted(printed_known))
    except Exception:  # noqa: BLE001
        traceback.print_exc()
        print('BROKEN: evidence could not be written / validated')
        return exit_code or 2
    if gave_up and exit_code == 0:
        print('BROKEN: exploration stopped early after too many worker crashes')
        exit_code = 2
    total_viol = sum(merged['viol_counts'].values())
    print(f'[{prop_id}] tier={tier} seed={seed} evaluations={merged["evaluations"]} '
          f'distinct={len(merged["classes"])} outcomes={len(merged["outcomes"])} '
          f'violations={total_viol} (unlisted={len(unlisted)}) wall={wall:.1f}s')
    return exit_code


def _crash_class(rc, logtail, timed_out):
    if timed_out or 'Timeout (0:' in logtail:
        return 'hang'
    if 'AddressSanitizer' in logtail:
        for kind in ('heap-use-after-free', 'heap-buffer-overflow', 'stack-overflow', 'SEGV',
                     'stack-buffer-overflow', 'use-after-poison', 'double-free'):
            if kind in logtail:
                return 'asan-' + kind
        return 'asan'
    if 'runtime error:' in logtail:
        return 'ubsan'
    if rc is not None and rc < 0:
        return f'signal{-rc}'
    return f'exit{rc}'


def main(argv=None):
    ap = argparse.ArgumentParser()
    ap.add_argument('--worker', action='store_true')
    ap.add_argument('--prop')
    ap.add_argument('--tier', default='quick')
    ap.add_argument('--seed', type=int, default=0)
    ap.add_argument('--shard', type=int, default=0)
    ap.add_argument('--of', type=int, default=1)
    ap.add_argument('--out')
    ap.add_argument('--ckpt')
    ap.add_argument('--skip')
    ap.add_argument('--replay')
    args = ap.parse_args(argv)
    if args.worker:
        worker_main(args)
        return 0
    return run_check(args.prop, args.tier, args.seed, args.replay)


if __name__ == '__main__':
    sys.exit(main())
