"""E4: stateless thread-interleaving explorer (DESIGN.md section 3.6).

Cooperative baton scheduler: harness threads are real `threading.Thread`s running real optree
operations; they hand control back to the scheduler only at *scheduling points* -- the Python-level
callbacks the engine can reach (is_leaf, custom flatten / unflatten, mapped functions, key / metadata
dunder methods, class hooks consulted during registration, warning hooks) and acquire / release of the
scheduler-aware lock that replaces `optree.registry.__REGISTRY_LOCK`.  On a GIL build these are
exactly the places where a thread switch can happen while the engine is on the stack.

Exploration is iterative context bounding: replay a prefix of choices (a divergence while replaying is
a hard error), then keep running the current thread (choice 0) at every later point; for every point
within the preemption budget branch to every other enabled thread.
"""

from __future__ import annotations

import threading


class ScheduleDivergence(RuntimeError):
    pass


class Deadlock(RuntimeError):
    pass


class Execution:
    """One complete run of a set of thread bodies under a given choice prefix."""

    def __init__(self, prefix, horizon=400):
        self.prefix = list(prefix)
        self.horizon = horizon
        self.points = []  # per decision: dict(enabled=[tids], chosen=index, running=tid|None, label=str)
        self.trace = []  # (tid, label) for every point reached
        self.threads = {}
        self.sems = {}
        self.state = {}  # tid -> 'ready' | 'blocked' | 'done'
        self.blocked_on = {}
        self.yielded = {}  # tid -> Semaphore released by the thread whenever it hands control back
        self.native_timeout = 1.0
        self.native_grace = 0.08
        self.native_blocked_events = 0
        self.current = None
        self.results = {}
        self.errors = {}
        self.local = threading.local()
        self.deadlock = None

    # ---- called from harness threads -----------------------------------------------------------
    def point(self, label):
        tid = getattr(self.local, 'tid', None)
        if tid is None:
            return  # called outside a scheduled thread (e.g. set-up code)
        self.trace.append((tid, label))
        self.yielded[tid].release()
        self.sems[tid].acquire()

    def block(self, lock, label='blocked'):
        tid = self.local.tid
        self.state[tid] = 'blocked'
        self.blocked_on[tid] = lock
        self.trace.append((tid, label))
        self.yielded[tid].release()
        self.sems[tid].acquire()

    def unblock(self, lock):
        for tid, lk in list(self.blocked_on.items()):
            if lk is lock:
                del self.blocked_on[tid]
                self.state[tid] = 'ready'

    # ---- scheduler -----------------------------------------------------------------------------------
    def _body(self, tid, fn):
        self.local.tid = tid
        self.sems[tid].acquire()
        try:
            self.results[tid] = fn()
        except BaseException as ex:  # noqa: BLE001
            self.errors[tid] = ex
        finally:
            self.state[tid] = 'done'
            self.yielded[tid].release()

    def run(self, bodies):
        """bodies: list of callables; thread ids are their indices."""
        native = set()  # threads that did not hand control back in time: blocked inside native code
        for tid, fn in enumerate(bodies):
            self.sems[tid] = threading.Semaphore(0)
            self.yielded[tid] = threading.Semaphore(0)
            self.state[tid] = 'ready'
            t = threading.Thread(target=self._body, args=(tid, fn), daemon=True)
            self.threads[tid] = t
            t.start()
        step = 0
        while True:
            # a thread blocked in native code (e.g. on an engine mutex, GIL released) is disabled until it
            # hands control back on its own
            # (grace period: if the last step released what it was waiting for, it reaches its next
            # scheduling point within microseconds -- wait for that so that replays are deterministic)
            for t in list(native):
                if self.yielded[t].acquire(timeout=self.native_grace):
                    native.discard(t)
            enabled = [t for t in sorted(self.state) if self.state[t] == 'ready' and t not in native]
            if not enabled and native:
                # everything else is finished or blocked: wait for a natively blocked thread to come back
                t = sorted(native)[0]
                if self.yielded[t].acquire(timeout=10.0):
                    native.discard(t)
                    continue
                self.deadlock = {'native-deadlock': sorted(native)}
                break
            if not enabled:
                if any(s == 'blocked' for s in self.state.values()):
                    self.deadlock = {t: repr(self.blocked_on.get(t)) for t, s in self.state.items() if s == 'blocked'}
                break
            # canonical order: the running thread first if still enabled, then ascending ids
            if self.current in enabled:
                enabled.remove(self.current)
                enabled.insert(0, self.current)
                still = True
            else:
                still = False
            if step < len(self.prefix):
                choice = self.prefix[step]
                if choice >= len(enabled):
                    raise ScheduleDivergence(f'step {step}: choice {choice} but only {len(enabled)} enabled')
            else:
                choice = 0
            self.points.append({'enabled': list(enabled), 'chosen': choice, 'running_still_enabled': still})
            tid = enabled[choice]
            self.current = tid
            step += 1
            if step > self.horizon:
                self.deadlock = {'livelock-horizon': self.horizon}
                break
            self.sems[tid].release()
            if not self.yielded[tid].acquire(timeout=self.native_timeout):
                native.add(tid)
                self.native_blocked_events += 1
                self.trace.append((tid, 'blocked-in-native-code'))
        for t in self.threads.values():
            t.join(timeout=0.001)
        return self

    def choices(self):
        return [p['chosen'] for p in self.points]

    def preemptions_before(self, i):
        n = 0
        for p in self.points[:i]:
            if p['running_still_enabled'] and p['chosen'] != 0:
                n += 1
        return n


class SchedLock:
    """Scheduler-aware replacement for a threading.Lock used by the library."""

    def __init__(self, get_exec, name='lock'):
        self.get_exec = get_exec
        self.owner = None
        self.name = name

    def acquire(self, blocking=True, timeout=-1):
        ex = self.get_exec()
        tid = getattr(ex.local, 'tid', None) if ex else None
        if tid is None:
            if self.owner is not None:
                raise RuntimeError('unscheduled acquire of a held SchedLock')
            self.owner = 'main'
            return True
        ex.point(f'{self.name}.acquire')
        while self.owner is not None:
            ex.block(self, f'{self.name}.blocked')
        self.owner = tid
        return True

    def release(self):
        ex = self.get_exec()
        self.owner = None
        if ex is not None:
            ex.unblock(self)
            if getattr(ex.local, 'tid', None) is not None:
                ex.point(f'{self.name}.release')

    def __enter__(self):
        self.acquire()
        return self

    def __exit__(self, *exc):
        self.release()
        return False

    def locked(self):
        return self.owner is not None

    def __repr__(self):
        return f'<SchedLock {self.name} owner={self.owner}>'


def explore(make_bodies, check, bound, on_schedule=None, max_schedules=None):
    """DFS over schedules.  make_bodies(execution) -> (bodies, context) builds a fresh world for every
    execution.  check(execution, context) is called after every complete execution.
    Returns dict(schedules=, complete=bool, max_points=)."""
    stats = {'schedules': 0, 'complete': True, 'max_points': 0, 'distinct_traces': set()}
    stack = [[]]
    while stack:
        prefix = stack.pop()
        if max_schedules is not None and stats['schedules'] >= max_schedules:
            stats['complete'] = False
            break
        for attempt in range(4):
            ex = Execution(prefix)
            if on_schedule:
                on_schedule(prefix)
            bodies, context = make_bodies(ex)
            try:
                ex.run(bodies)
                break
            except ScheduleDivergence:
                # only possible when a thread blocked in native code woke up at a different moment
                # than in the run that produced this prefix; retry with a longer grace period
                stats['divergence_retries'] = stats.get('divergence_retries', 0) + 1
                cleanup = getattr(context.get('world'), 'cleanup', None) if isinstance(context, dict) else None
                if cleanup:
                    cleanup()
                if attempt == 3:
                    raise
        stats['schedules'] += 1
        stats['max_points'] = max(stats['max_points'], len(ex.points))
        stats['distinct_traces'].add(tuple(ex.trace))
        check(ex, context)
        choices = ex.choices()
        for i in range(len(prefix), len(ex.points)):
            p = ex.points[i]
            cost = ex.preemptions_before(i)
            for alt in range(1, len(p['enabled'])):
                c = cost + (1 if p['running_still_enabled'] else 0)
                if bound is not None and c > bound:
                    continue
                stack.append([*choices[:i], alt])
    return stats
