"""The universe of types, registrations, namespaces and predicates used by the explorers
(DESIGN.md section 3.2).  Built inside each worker process after `optree` is imported from the
overlay build.  The universe also records the *truth* about every registration it performs
(`reg`), which is what the reference model (mc/ref.py) consults -- never optree's own registry.
"""

from __future__ import annotations

import collections
import grp
import os
import time
from collections import OrderedDict, UserDict, defaultdict, deque, namedtuple

import optree
from optree.registry import __GLOBAL_NAMESPACE as GLOBAL  # noqa: N811


class Leaf:
    """Fresh, identity-tracked, weak-referenceable opaque leaf."""

    __slots__ = ('i', '__weakref__')

    def __init__(self, i):
        self.i = i

    def __repr__(self):
        return f'L{self.i}'

    def __bool__(self):
        return self.i % 3 != 0

    def __radd__(self, other):
        if isinstance(other, tuple):
            return (*other, self.i)
        return NotImplemented


# ---------------------------------------------------------------------------------------------
# built-in look-alikes (must be leaves under every configuration)
class ListSub(list):
    pass


class DictSub(dict):
    pass


class TupleSub(tuple):
    pass


class ODictSub(OrderedDict):
    pass


class DequeSub(deque):
    pass


class DDictSub(defaultdict):
    pass


# keys without ordering
class UKey:
    """Hashable key type without __lt__ (unsortable even with the type-name fallback)."""

    __slots__ = ('n',)

    def __init__(self, n):
        self.n = n

    def __hash__(self):
        return hash(('UKey', self.n))

    def __eq__(self, other):
        return type(other) is UKey and other.n == self.n

    def __repr__(self):
        return f'UKey({self.n})'


RECORD = False
CALLS = []  # (what, tag, id(obj)) appended by custom flatten / unflatten functions when RECORD


def _rec(what, tag, obj):
    if RECORD:
        CALLS.append((what, tag, id(obj)))


NT0 = namedtuple('NT0', '')
NT1 = namedtuple('NT1', 'p')
NT2 = namedtuple('NT2', 'x y')
NT3 = namedtuple('NT3', 'f g h')


class NT2s(NT2):
    """Subclass of a namedtuple class: still a namedtuple node (own type)."""

    __slots__ = ()


SS2 = os.terminal_size  # 2 visible fields
SS4 = grp.struct_group  # 4 visible fields
SS9 = time.struct_time  # 9 visible fields (11 total)

NT_TYPES = {NT0: (), NT1: ('p',), NT2: ('x', 'y'), NT3: ('f', 'g', 'h'), NT2s: ('x', 'y')}
SS_TYPES = {
    SS2: ('columns', 'lines'),
    SS4: ('gr_name', 'gr_passwd', 'gr_gid', 'gr_mem'),
    SS9: (
        'tm_year', 'tm_mon', 'tm_mday', 'tm_hour', 'tm_min', 'tm_sec', 'tm_wday', 'tm_yday',
        'tm_isdst',
    ),
}


# ---------------------------------------------------------------------------------------------
# custom node classes
class CG:
    """Class-registered in the global namespace; children only, no explicit entries."""

    def __init__(self, children):
        self.children = list(children)

    def tree_flatten(self):
        _rec('flatten', 'tag:CG@global', self)
        return tuple(self.children), 'tag:CG@global', None

    @classmethod
    def tree_unflatten(cls, metadata, children):
        assert metadata == 'tag:CG@global'
        return cls(children)

    def __getitem__(self, i):
        return self.children[i]

    def __repr__(self):
        return f'CG({self.children!r})'


class CNEntry(optree.PyTreeEntry):
    """Own entry class with real code generation for CN."""

    __slots__ = ()

    def __call__(self, obj):
        return obj.get(self.entry)

    def codify(self, node=''):
        # deliberately NOT suffix-style: the expression for the parent is an argument of the generated code
        return f'(lambda _o: _o.get({self.entry!r}))({node})'


class CN:
    """Function-registered in namespace 'ns'; metadata + explicit string entries + own entry class."""

    def __init__(self, children, meta='m'):
        self.children = list(children)
        self.meta = meta

    def get(self, entry):
        return self.children[int(entry[1:])]

    def __repr__(self):
        return f'CN({self.children!r}, {self.meta!r})'


def cn_flatten(obj):
    _rec('flatten', 'tag:CN@ns', obj)
    return (
        # the canonical variant hands its children over as a ONE-SHOT iterator (with explicit entries), others as a list
        iter(list(obj.children)) if obj.meta == 'm' else list(obj.children),
        ('tag:CN@ns', obj.meta),
        tuple(f'e{i}' for i in range(len(obj.children))),
    )


def cn_unflatten(metadata, children):
    tag, meta = metadata
    assert tag == 'tag:CN@ns'
    return CN(children, meta)


class CD:
    """dict-like, MappingEntry, children in *reversed* sorted key order (as the suite's MyDict)."""

    def __init__(self, data):
        self.data = dict(data)

    def __getitem__(self, k):
        return self.data[k]

    def __repr__(self):
        return f'CD({self.data!r})'


def cd_flatten(obj):
    _rec('flatten', 'tag:CD@ns', obj)
    keys = tuple(sorted(obj.data, reverse=True))
    return tuple(obj.data[k] for k in keys), ('tag:CD@ns', keys), keys


def cd_unflatten(metadata, children):
    tag, keys = metadata
    assert tag == 'tag:CD@ns'
    return CD(zip(keys, children))


class CS:
    """Registered both globally and in 'ns' with *different* functions (shadowing observable)."""

    def __init__(self, children):
        self.children = list(children)

    def __getitem__(self, i):
        return self.children[i]

    def __repr__(self):
        return f'CS({self.children!r})'


def cs_flatten_global(obj):
    _rec('flatten', 'tag:CS@global', obj)
    return tuple(obj.children), 'tag:CS@global'


def cs_unflatten_global(metadata, children):
    assert metadata == 'tag:CS@global'
    return CS(children)


def cs_flatten_ns(obj):
    _rec('flatten', 'tag:CS@ns', obj)
    n = len(obj.children)
    # entries as an instance of a tuple SUBCLASS (flatten functions may return any tuple)
    return tuple(reversed(obj.children)), 'tag:CS@ns', TupleSub(range(n - 1, -1, -1))


def cs_unflatten_ns(metadata, children):
    assert metadata == 'tag:CS@ns'
    return CS(reversed(list(children)))


class CM:
    """Custom node whose flatten function misbehaves according to `mode` (registered in 'ns')."""

    def __init__(self, children, mode='ok'):
        self.children = list(children)
        self.mode = mode

    def __repr__(self):
        return f'CM({len(self.children)} children, {self.mode!r})'


CM_MODES = (
    'ok', 'tuple0', 'tuple1', 'tuple4', 'returns-none', 'returns-int', 'returns-list',
    'children-int', 'children-none', 'children-generator', 'children-list',
    'entries-short', 'entries-long', 'entries-int', 'entries-list', 'entries-none',
)


def cm_flatten(o):  # noqa: C901, PLR0911, PLR0912
    ch = tuple(o.children)
    ents = tuple(f'k{i}' for i in range(len(ch)))
    m = o.mode
    if m == 'ok':
        return ch, 'tag:CM@ns', ents
    if m == 'tuple0':
        return ()
    if m == 'tuple1':
        return (ch,)
    if m == 'tuple4':
        return (ch, None, None, None)
    if m == 'returns-none':
        return None
    if m == 'returns-int':
        return 5
    if m == 'returns-list':
        return [ch, 'tag:CM@ns']
    if m == 'children-int':
        return 5, None
    if m == 'children-none':
        return None, None
    if m == 'children-generator':
        return (c for c in ch), 'tag:CM@ns'
    if m == 'children-list':
        return list(ch), 'tag:CM@ns', list(ents)
    if m == 'entries-short':
        return ch, None, ents[:-1]
    if m == 'entries-long':
        return ch, None, (*ents, 'extra')
    if m == 'entries-int':
        return ch, None, 5
    if m == 'entries-list':
        return ch, 'tag:CM@ns', list(ents)
    if m == 'entries-none':
        return ch, 'tag:CM@ns', None
    raise AssertionError(m)


def cm_unflatten(metadata, children):
    return CM(children)


@optree.dataclasses.dataclass(namespace='ns')
class DC:
    """optree dataclass in namespace 'ns': two child fields, one metadata field."""

    a: object
    b: object
    m: str = optree.dataclasses.field(default='meta', pytree_node=False)


@optree.dataclasses.dataclass(namespace='ns')
class DC2:
    """optree dataclass whose metadata field comes FIRST and whose second child is keyword-only."""

    m: str = optree.dataclasses.field(default='meta2', pytree_node=False)
    a: object = None
    b: object = optree.dataclasses.field(default=None, kw_only=True)


class Reg:
    """Truth about one registration (reference model's view)."""

    __slots__ = ('entry_type', 'flatten', 'namespace', 'tag', 'type', 'unflatten')

    def __init__(self, type_, namespace, flatten, unflatten, entry_type, tag):
        self.type = type_
        self.namespace = namespace
        self.flatten = flatten
        self.unflatten = unflatten
        self.entry_type = entry_type
        self.tag = tag

    def __repr__(self):
        return f'Reg({self.type.__name__}@{self.namespace or "global"})'


def _partial_flatten(p):
    return (p.args, p.keywords), p.func, ('args', 'keywords')


def probe(*args, **kwargs):
    """Function wrapped by partial nodes; returns its call."""
    return ('probe', args, kwargs)


class Universe:
    """Performs the registrations (once per process) and records the truth."""

    NAMESPACES = ('', 'ns', 'xnsx')

    def __init__(self):
        self.reg = {}  # (namespace, type) -> Reg
        self.nt_types = dict(NT_TYPES)
        self.ss_types = dict(SS_TYPES)

        optree.register_pytree_node_class(CG, namespace=GLOBAL)
        self._add(CG, '', lambda o: o.tree_flatten(), CG.tree_unflatten, optree.accessor.AutoEntry,
                  'tag:CG@global')
        optree.register_pytree_node(CN, cn_flatten, cn_unflatten, path_entry_type=CNEntry,
                                    namespace='ns')
        self._add(CN, 'ns', cn_flatten, cn_unflatten, CNEntry, 'tag:CN@ns')
        optree.register_pytree_node(CD, cd_flatten, cd_unflatten,
                                    path_entry_type=optree.accessor.MappingEntry, namespace='ns')
        self._add(CD, 'ns', cd_flatten, cd_unflatten, optree.accessor.MappingEntry, 'tag:CD@ns')
        optree.register_pytree_node(CS, cs_flatten_global, cs_unflatten_global, namespace=GLOBAL)
        self._add(CS, '', cs_flatten_global, cs_unflatten_global, optree.accessor.AutoEntry,
                  'tag:CS@global')
        optree.register_pytree_node(CS, cs_flatten_ns, cs_unflatten_ns, namespace='ns')
        self._add(CS, 'ns', cs_flatten_ns, cs_unflatten_ns, optree.accessor.AutoEntry, 'tag:CS@ns')

        optree.register_pytree_node(CM, cm_flatten, cm_unflatten, namespace='ns')
        self._add(CM, 'ns', cm_flatten, cm_unflatten, optree.accessor.AutoEntry, 'tag:CM@ns')

        import dataclasses as std_dc  # noqa: PLC0415

        self.DC = DC

        def dc_flatten(o):
            return (o.a, o.b), (('m', o.m),), ('a', 'b')

        def dc_unflatten(metadata, children):
            return DC(a=children[0], b=children[1], **dict(metadata))

        self._add(DC, 'ns', dc_flatten, dc_unflatten, optree.accessor.DataclassEntry, 'tag:DC@ns')
        self.DC2 = DC2
        self._add(DC2, 'ns', lambda o: ((o.a, o.b), (('m', o.m),), ('a', 'b')),
                  lambda metadata, children: DC2(a=children[0], b=children[1], **dict(metadata)),
                  optree.accessor.DataclassEntry, 'tag:DC2@ns')
        self.std_dc = std_dc

        P = optree.functools.partial
        self.P = P
        self._add(P, '', _partial_flatten,
                  lambda func, ch: P(func, *ch[0], **ch[1]),
                  optree.accessor.GetAttrEntry, 'tag:partial@global')

    def _add(self, type_, namespace, flatten, unflatten, entry_type, tag):
        self.reg[(namespace, type_)] = Reg(type_, namespace, flatten, unflatten, entry_type, tag)

    # -- truth lookups ------------------------------------------------------------------
    def lookup(self, type_, namespace):
        if namespace:
            r = self.reg.get((namespace, type_))
            if r is not None:
                return r
        return self.reg.get(('', type_))

    def any_reg(self, type_):
        for ns in ('ns', ''):
            r = self.reg.get((ns, type_))
            if r is not None:
                return r
        return None


# ---------------------------------------------------------------------------------------------
# predicates (harness-owned; `None` = absent)
def pred_is_tuple(x):
    return type(x) is tuple


def pred_is_dict_family(x):
    return isinstance(x, dict)


def pred_container_of_leaves(x):
    if type(x) in (tuple, list, deque) or isinstance(x, tuple):
        return len(x) > 0 and all(type(c) is Leaf for c in x)
    if isinstance(x, dict):
        return len(x) > 0 and all(type(c) is Leaf for c in x.values())
    return False


def pred_always(x):
    return True


def pred_is_none(x):
    return x is None


def pred_tuple_or_none(x):
    # answers with ints, not bools: the engine converts the answer with bool(), Python wrappers by truthiness
    return 1 if (type(x) is tuple or x is None) else 0


def pred_custom(x):
    return type(x) in (CG, CN, CS, CD)


PREDICATES = {
    'none': None,
    'is_tuple': pred_is_tuple,
    'is_dict': pred_is_dict_family,
    'leafbox': pred_container_of_leaves,
    'always': pred_always,
    'custom': pred_custom,
    'is_none': pred_is_none,  # interacts with none_is_leaf=False: None becomes a leaf through the predicate
    'tuple_or_none': pred_tuple_or_none,  # only when asked for (reduced predicate menus)
}

# dict-order modes: name -> list of (mode, namespace-arg) context managers to enter
DICT_MODES = {
    'sorted': (),
    'ins_ns': ((True, 'ns'),),
    'ins_global': ((True, GLOBAL),),
}


def mode_set(mode_name):
    """The set S of insertion-ordered namespaces for a named mode (reference model's view)."""
    return {'sorted': frozenset(), 'ins_ns': frozenset({'ns'}), 'ins_global': frozenset({''})}[
        mode_name
    ]


class dict_mode:  # noqa: N801
    """Context manager entering optree.dict_insertion_ordered for a named mode."""

    def __init__(self, name):
        self.cms = [optree.dict_insertion_ordered(m, namespace=n) for m, n in DICT_MODES[name]]

    def __enter__(self):
        for cm in self.cms:
            cm.__enter__()
        return self

    def __exit__(self, *exc):
        for cm in reversed(self.cms):
            cm.__exit__(*exc)
        return False


class force_mode:  # noqa: N801
    """Context manager that makes the named dict-order mode effective regardless of the enclosing one."""

    FLAGS = {'sorted': ((False, 'ns'), (False, GLOBAL)), 'ins_ns': ((True, 'ns'), (False, GLOBAL)),
             'ins_global': ((False, 'ns'), (True, GLOBAL))}

    def __init__(self, name):
        self.cms = [optree.dict_insertion_ordered(m, namespace=n) for m, n in self.FLAGS[name]]

    def __enter__(self):
        for cm in self.cms:
            cm.__enter__()
        return self

    def __exit__(self, *exc):
        for cm in reversed(self.cms):
            cm.__exit__(*exc)
        return False


def all_configs(predicates=None, namespaces=None, modes=None, nils=(False, True)):
    predicates = [p for p in PREDICATES if p != 'tuple_or_none'] if predicates is None else predicates
    namespaces = list(Universe.NAMESPACES) if namespaces is None else namespaces
    modes = list(DICT_MODES) if modes is None else modes
    return [
        {'nil': nil, 'ns': ns, 'pred': p, 'mode': m}
        for m in modes
        for nil in nils
        for ns in namespaces
        for p in predicates
    ]


__all__ = [name for name in dir() if not name.startswith('_')]
_ = collections, UserDict
